import argparse
import os
import sys

from . import env


def main():
    ap = argparse.ArgumentParser(prog='check')
    ap.add_argument('id')
    ap.add_argument('--tier', default=os.environ.get('VERIF_TIER') or 'quick', choices=['quick', 'thorough'])
    ap.add_argument('--replay')
    ap.add_argument('--jobs', type=int)
    ap.add_argument('--inline', action='store_true', help='run shards in-process (debugging)')
    ap.add_argument('--only', action='append', help='run only the named campaign(s); no evidence is written')
    a = ap.parse_args()
    seed = int(os.environ.get('VERIF_SEED') or 0)
    env.setup_paths()
    from . import runner
    sys.exit(runner.main_check(a.id.upper(), a.tier, seed, jobs=a.jobs, replay=a.replay, inline=a.inline, only=a.only))


if __name__ == '__main__':
    main()
