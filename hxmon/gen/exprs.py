"""Seeded generator of expression trees and their renderings (minimal / full / redundant parentheses).

The renderer inserts parentheses from the *statement's* table (unary minus > * / > + - > & > comparison,
left-associative), never from the code's.  A rendering is a nested item list (see models/rational.py)
that can be flattened to generator-level tokens (numeric literal, reference, name, string, operator,
'NAME(' ) so that other checks can put whitespace at token boundaries or swap separators.
"""

PRIMES = [2, 3, 5, 7, 11, 13, 17, 19, 23, 29, 31, 37]
DYADIC = ['0.5', '2.25', '1.5', '0.25', '.5', '.125', '3.75', '10.5', '.75']
DECIMALS = ['0.1', '3.7', '2.6', '0.3', '12.34', '.2', '100.01']
VARS = {'xa': 4, 'yb': -6, 'zed': 0.5, 'width': 12, 'rate_pct': 2.5, 'n_items': 9, 'neg_half': -0.5}
CELLS = {'A1': 3, 'B2': 7, 'C3': -2, 'AA10': 1.5, 'XFD1048576': 11, 'Z9': 0.25, 'D4': 100}
CELL_SPELLINGS = {'A1': ['A1', 'a1', '$A$1', '$a1', 'A$1'], 'B2': ['B2', 'b2', '$B2', 'b$2'], 'C3': ['C3', '$c$3'],
                  'AA10': ['AA10', 'aa10', 'Aa$10'], 'XFD1048576': ['XFD1048576', 'xfd1048576', '$XFD$1048576'],
                  'Z9': ['Z9', 'z9'], 'D4': ['D4', 'd4', '$D$4']}
TEXTS = ['a', 'b', 'ab', '', 'A', 'x y', '12', 'zz']
CMPS = ['<', '>', '=', '<=', '>=', '<>']

LEVEL = {'neg': 5, '*': 4, '/': 4, '+': 3, '-': 3, 'amp': 2, 'cmp': 1}


def level(t):
    k = t[0]
    if k == 'bin':
        return LEVEL[t[1]]
    if k in LEVEL:
        return LEVEL[k]
    return 9


class ExprGen(object):
    def __init__(self, rnd, maxdepth=6, p_leaf=0.28, ints_only=False, allow_div=True, allow_cmp=True, allow_amp=True,
                 allow_calls=True, allow_refs=True, max_leaves=400):
        self.rnd = rnd
        self.maxdepth = maxdepth
        self.p_leaf = p_leaf
        self.ints_only = ints_only
        self.allow_div, self.allow_cmp, self.allow_amp = allow_div, allow_cmp, allow_amp
        self.allow_calls, self.allow_refs = allow_calls, allow_refs
        self.max_leaves = max_leaves
        self.leaves = 0

    # ---- leaves
    def leaf(self, ints_only=False):
        r = self.rnd
        self.leaves += 1
        k = r.random()
        ints_only = ints_only or self.ints_only
        if k < 0.45:
            return ('int', r.choice(PRIMES))
        if k < 0.5:
            return ('int', r.choice([0, 1, 10, 100, 64, 1000]))
        if k < 0.56:
            return ('pow', r.choice([2, 3, 5, 10]), r.choice([0, 1, 2, 3, 5]))
        if self.allow_refs and k < 0.72:
            if r.random() < 0.5:
                names = [n for n, v in VARS.items() if not ints_only or isinstance(v, int)]
                n = r.choice(names)
                return ('var', n, VARS[n])
            labs = [l for l, v in CELLS.items() if not ints_only or isinstance(v, int)]
            l = r.choice(labs)
            return ('cell', r.choice(CELL_SPELLINGS[l]), CELLS[l])
        if ints_only:
            return ('int', r.choice(PRIMES))
        if k < 0.86:
            return ('dec', r.choice(DYADIC))
        if k < 0.93:
            return ('dec', r.choice(DECIMALS))
        return ('pct', r.choice([50, 25, 100, 200, 12]))

    # ---- numeric trees
    def num(self, d, ints_only=False):
        r = self.rnd
        if d <= 0 or self.leaves >= self.max_leaves or r.random() < self.p_leaf:
            return self.leaf(ints_only)
        k = r.random()
        if k < 0.12:
            return ('neg', self.num(d - 1, ints_only))
        if self.allow_calls and k < 0.24:
            f = r.choice(['SUM', 'MAX', 'MIN', 'PRODUCT', 'ABS'])
            n = 1 if f == 'ABS' else r.randint(1, 4)
            return ('call', f, [self.arith_nocmp(d - 1, ints_only) for _ in range(n)])     # a comparison is never a function argument
        if self.allow_cmp and not ints_only and k < 0.30:
            return self.cmp(d - 1, numeric_only=True)          # TRUE/FALSE act as 1/0 under arithmetic
        ops = '+-*' if (ints_only or not self.allow_div) else '+-*/+-*'
        op = r.choice(ops)
        return ('bin', op, self.num(d - 1, ints_only), self.num(d - 1, ints_only))

    def amp(self, d):
        r = self.rnd
        n = r.randint(2, 4)
        ops = []
        for _ in range(n):
            k = r.random()
            self.leaves += 1
            if k < 0.4:
                ops.append(('str', r.choice(TEXTS)))
            elif k < 0.6:
                ops.append(('int', r.choice(PRIMES + [0, 10])))
            elif k < 0.85 or d <= 0:
                ops.append(self.num(min(d - 1, 3), ints_only=True))
            else:
                ops.append(self.amp(d - 1))
        return ('amp', ops)

    def cmp(self, d, numeric_only=False):
        r = self.rnd
        op = r.choice(CMPS)
        if self.allow_amp and not numeric_only and r.random() < 0.3:
            def side():
                return self.amp(d - 1) if r.random() < 0.7 else ('str', r.choice(TEXTS))
            return ('cmp', op, side(), side())
        if self.allow_amp and not numeric_only and r.random() < 0.12:
            # a number against an & chain that SPELLS that number (or its neighbour): text all the same
            n = r.choice([12, 7, 105, 30, 2024, 11])
            digits = str(n + r.choice([0, 0, 0, 1]))
            k = r.randint(1, len(digits) - 1) if len(digits) > 1 else 1
            chain = ('amp', [('int', int(digits[:k]))] + ([('int', int(digits[k:]))] if digits[k:] and not digits[k:].startswith('0') else [('str', digits[k:])]))
            self.leaves += 3
            num = ('int', n) if r.random() < 0.6 else ('bin', '+', ('int', n - 5), ('int', 5))
            return ('cmp', op, num, chain) if r.random() < 0.5 else ('cmp', op, chain, num)
        if r.random() < 0.08:
            # whole numbers beyond 2**53, one apart: exact as integers, indistinguishable as doubles
            base = r.choice([2 ** 53, 2 ** 53 + 2, 10 ** 17, 3 ** 35, 2 ** 64])

            def big():
                self.leaves += 2
                j = r.choice([0, 1, -1, 2, 3])
                return ('int', base + j) if r.random() < 0.5 else ('bin', r.choice('+-'), ('int', base), ('int', abs(j) + r.choice([0, 1])))
            return ('cmp', op, big(), big())
        return ('cmp', op, self.arith_nocmp(d - 1), self.arith_nocmp(d - 1))

    def arith_nocmp(self, d, ints_only=False):
        """numeric tree whose top node is not a comparison (a comparison never gets a logical operand here)"""
        t = self.num(d, ints_only)
        while t[0] == 'cmp':
            t = ('bin', '+', t, self.leaf())
        return t

    def tree(self, d=None):
        d = self.maxdepth if d is None else d
        self.leaves = 0
        r = self.rnd.random()
        if self.allow_cmp and r < 0.22:
            return self.cmp(d)
        if self.allow_amp and r < 0.30:
            return self.amp(d)
        return self.num(d)


# ------------------------------------------------------------------ rendering
def _atom_or_group(items):
    return items if len(items) == 1 and items[0][0] in ('atom', 'group') else [('group', items)]


def render(t, mode='min', rnd=None, p_extra=0.25):
    """items of tree t.  mode: 'min' (fewest parentheses that preserve the tree under the statement's table),
    'full' (every operator node parenthesised), 'redundant' (min + random extra parentheses)."""
    def wrap(items, need):
        if need:
            items = [('group', items)]
        if mode == 'redundant' and rnd is not None and rnd.random() < p_extra:
            for _ in range(rnd.randint(1, 5)):
                items = [('group', items)]
        return items

    def go(t):
        k = t[0]
        if k in ('int', 'dec', 'pow', 'pct', 'str', 'var', 'cell'):
            return [('atom', t)]
        if k == 'call':
            return [('atom', ('call', t[1], t[2], [go(a) for a in t[2]]))]
        full = mode == 'full'
        if k == 'neg':
            x = t[1]
            return [('neg',)] + wrap(go(x), full and level(x) < 9 or level(x) < LEVEL['neg'])
        if k == 'bin':
            L = LEVEL[t[1]]
            l, r = t[2], t[3]
            return (wrap(go(l), (full and level(l) < 9) or level(l) < L) + [('op', t[1])] +
                    wrap(go(r), (full and level(r) < 9) or level(r) <= L))
        if k == 'cmp':
            l, r = t[2], t[3]
            return (wrap(go(l), (full and level(l) < 9) or level(l) <= 1) + [('op', t[1])] +
                    wrap(go(r), (full and level(r) < 9) or level(r) <= 1))
        if k == 'amp':
            out = []
            for i, x in enumerate(t[1]):
                if i:
                    out.append(('op', '&'))
                out += wrap(go(x), level(x) < 9)       # & operands: atoms or parenthesised
            return out
        raise ValueError(k)
    return go(t)


def strip_calls(items):
    """rendering with call atoms reduced to their tree (for models.rational.read)"""
    out = []
    for it in items:
        if it[0] == 'atom' and it[1][0] == 'call':
            out.append(('atom', ('call', it[1][1], it[1][2])))
        elif it[0] == 'group':
            out.append(('group', strip_calls(it[1])))
        else:
            out.append(it)
    return out


def quote(s):
    return '"%s"' % s if '"' not in s else "'%s'" % s


def tokens(items, sep=','):
    """generator-level tokens of a rendering; `sep` may be a callable returning the separator per call"""
    out = []
    for it in items:
        k = it[0]
        if k == 'op':
            out.append(it[1])
        elif k == 'neg':
            out.append('-')
        elif k == 'group':
            out.append('(')
            out += tokens(it[1], sep)
            out.append(')')
        else:
            t = it[1]
            a = t[0]
            if a == 'int':
                out.append(str(t[1]))
            elif a == 'dec':
                out.append(t[1])
            elif a == 'pow':
                out.append('%d^%d' % (t[1], t[2]))
            elif a == 'pct':
                out.append('%d%%' % t[1])
            elif a == 'str':
                out.append(quote(t[1]))
            elif a in ('var', 'cell'):
                out.append(t[1])
            elif a == 'call':
                s = sep() if callable(sep) else sep
                out.append(t[1] + '(')
                for i, sub in enumerate(t[3]):
                    if i:
                        out.append(s)
                    out += tokens(sub, sep)
                out.append(')')
    return out


def text(items, sep=','):
    return ''.join(tokens(items, sep))


def size(t):
    k = t[0]
    if k in ('int', 'dec', 'pow', 'pct', 'str', 'var', 'cell'):
        return 1
    if k == 'neg':
        return 1 + size(t[1])
    if k in ('bin', 'cmp'):
        return 1 + size(t[2]) + size(t[3])
    if k == 'amp':
        return len(t[1]) - 1 + sum(size(x) for x in t[1])
    if k == 'call':
        return 1 + sum(size(x) for x in t[2])
    return 1


def depth(t):
    k = t[0]
    if k == 'neg':
        return 1 + depth(t[1])
    if k in ('bin', 'cmp'):
        return 1 + max(depth(t[2]), depth(t[3]))
    if k == 'amp':
        return 1 + max(depth(x) for x in t[1])
    if k == 'call':
        return 1 + max(depth(x) for x in t[2])
    return 0


def operators(t, acc=None):
    acc = [] if acc is None else acc
    k = t[0]
    if k == 'neg':
        acc.append('neg')
        operators(t[1], acc)
    elif k in ('bin', 'cmp'):
        acc.append(t[1])
        operators(t[2], acc)
        operators(t[3], acc)
    elif k == 'amp':
        acc.extend(['&'] * (len(t[1]) - 1))
        for x in t[1]:
            operators(x, acc)
    elif k == 'call':
        for x in t[2]:
            operators(x, acc)
    return acc


def install_refs(parser):
    """register the variables and a cell listener delivering CELLS on a hotxlfp.Parser"""
    for n, v in VARS.items():
        parser.set_variable(n, v)

    def on_cell(cell, setter):
        lab = cell.label.replace('$', '').upper()
        if lab in CELLS:
            setter(CELLS[lab])
    parser.on('callCellValue', on_cell)
