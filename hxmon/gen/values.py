"""Seeded value pools by class (shared by C06, C07, C01, C02 ...)."""
import datetime

D = datetime.datetime

SCALAR_CLASSES = ['int', 'float', 'bool', 'blank', 'numtext', 'text', 'emptytext', 'date', 'datetime', 'datetext']


def gen(rnd, cls):
    if cls == 'int':
        return rnd.choice([0, 1, -1, 2, 7, -13, 60, 61, 365, 43789, 10 ** 6, -10 ** 6, 10 ** 12, 2 ** 53 + 1, 10 ** 20 + 7, -(3 ** 40), rnd.randint(-1000, 1000)])
    if cls == 'float':
        return rnd.choice([0.5, -0.5, 2.25, 1e-6, 123456.789, -3.75, 1e9 + 0.5, 0.1, 43789.5, 1.0, 0.0, rnd.uniform(-1000, 1000),
                           round(rnd.uniform(-10, 10), rnd.randint(1, 6)), rnd.uniform(-1, 1) * 10 ** rnd.randint(-6, 9)])
    if cls == 'bool':
        return rnd.choice([True, False])
    if cls == 'blank':
        return None
    if cls == 'numtext':
        return rnd.choice(['3', '-2.5', '+7', ' 12 ', '0', '1e3', '.5', '007', '-0', '10', '2.50', str(rnd.randint(-99, 99)),
                           repr(round(rnd.uniform(-50, 50), 2))])
    if cls == 'text':
        return rnd.choice(['abc', 'hello world', 'x1', '#', 'ñ', 'a', 'A', 'abd', 'TRUE', 'true', ' ', 'é', 'Zebra', 'zebra', '12abc',
                           '1,5', 'ab' + chr(rnd.randint(97, 122)), '你好', '#N/A', '#DIV/0!', '#REF!', '#NAME?', '#NUM!', '#NULL!', '#VALUE!', '#ERROR!',
                           'nan', 'inf', '-inf', 'Infinity', 'NaN', '1_000', '1__0', '0x10', '1e', 'e5', '3+4i', 'i', '2j', '1e999', 'a\x00', '\u00e9\x00', '\x00'])
    if cls == 'emptytext':
        return ''
    if cls == 'date':
        return D(rnd.randint(1901, 9000), rnd.randint(1, 12), rnd.randint(1, 28))
    if cls == 'datetime':
        return D(rnd.randint(1901, 9000), rnd.randint(1, 12), rnd.randint(1, 28), rnd.randint(0, 23), rnd.randint(0, 59),
                 rnd.randint(0, 59), rnd.randint(0, 999) * 1000)
    if cls == 'datetext':
        d = D(rnd.randint(1901, 9000), rnd.randint(1, 12), rnd.randint(1, 28))
        return rnd.choice([d.strftime('%Y-%m-%d'), d.strftime('%Y-%m-%dT%H:%M:%S')])
    raise ValueError(cls)


def broad_class(x):
    if x is None:
        return 'blank'
    if isinstance(x, bool):
        return 'logical'
    if isinstance(x, (int, float)):
        return 'number'
    if isinstance(x, str):
        return 'text'
    if isinstance(x, datetime.datetime):
        return 'date'
    if isinstance(x, list):
        return 'array'
    return 'other'
