"""pytest plugin (passed with -p hxmon.pytest_plugin): runs the repository's own tests with the contract layer active
and dumps what the monitors observed to $HXMON_PLUGIN_OUT."""
import json
import os


def pytest_configure(config):
    from hxmon import env, contracts
    env.load()
    contracts.install()


def pytest_sessionfinish(session, exitstatus):
    from hxmon import contracts
    out = os.environ.get('HXMON_PLUGIN_OUT')
    if not out:
        return
    mon = contracts.MON
    data = {'evals': dict(mon.evals), 'alarms': [{'prop': p, 'key': k, 'count': n, 'witnesses': ws} for (p, k), (n, ws) in mon.alarms.items()],
            'exitstatus': int(exitstatus), 'tests': session.testscollected}
    with open(out, 'w') as f:
        json.dump(data, f)
