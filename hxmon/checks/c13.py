"""C13 - date serial numbers: invertible, monotone, Excel 1900 system.

Deciding monitors: (i) the serial contracts on the real serialize_date/parse_date (contracts.py) which
judge every conversion made by any workload; (ii) an exhaustive function-level sweep of every calendar
day 1900-01-01..9999-12-31 and every integer serial 61..2958465 with direct round-trip/monotonicity
assertions; (iii) boundary recorder at formula level (DATEVALUE, N, DAYS, +, -, comparisons, YEAR/MONTH/DAY
of serials) judged by a model built only on datetime.date.toordinal.
"""
import datetime
import math

from ..runner import BaseCheck
from ..oracle import BASE_ORD, serial_of, date_of_serial, is_num, close, dt_close
from .. import env, hx
from fractions import Fraction as Fr

D = datetime.datetime


class Stamp(datetime.datetime):
    """a datetime subclass, as pandas.Timestamp / pendulum.DateTime / freezegun's FakeDatetime are"""
ORD0 = datetime.date(1900, 1, 1).toordinal()
ORDN = datetime.date(9999, 12, 31).toordinal()
MARCH1 = D(1900, 3, 1)
MAXS = 2958465


class Check(BaseCheck):
    ID = 'C13'
    TITLE = 'Date serial numbers: invertible, monotone, Excel 1900 system'
    TECHNIQUE = 'runtime contracts on serialize_date/parse_date + exhaustive day/serial sweep + formula-level recorder vs toordinal model'
    RULE = ('function level: every calendar day 1900-01-01..9999-12-31 and every integer serial 61..2958465 (exhaustive), random '
            'date-times at millisecond resolution and 1-ms-apart pairs; formula level: DATEVALUE/N/DAYS/+/-/comparisons/YEAR-MONTH-DAY '
            'on generated dates and offsets. non-trivial = the oracle for the case was fully evaluated (date in the claimed range); '
            'distinct = distinct (campaign, input).')
    ASSUMPTIONS = ('"serial equals days since 1899-12-30" and "adding n days" are demanded from 1 March 1900 on, as the statement scopes them; '
                   'January/February 1900 need only round-trip and be monotone',
                   'results before 1900 must be #NUM!; results beyond 9999-12-31 are not judged',
                   'naive datetimes only (no tzinfo); the process time zone is varied (7 POSIX zones) and must not matter')

    NO_AMBIENT = ('days', 'serials')      # the exhaustive sweeps (time zones have a campaign of their own)

    def plan(self, tier, seed):
        specs = [{'campaign': 'sentinels'}]
        n = 16
        step = (ORDN - ORD0 + 1 + n - 1) // n
        for i in range(n):
            specs.append({'campaign': 'days', 'lo': ORD0 + i * step, 'hi': min(ORDN + 1, ORD0 + (i + 1) * step)})
        sstep = (MAXS - 61 + 1 + n - 1) // n
        for i in range(n):
            specs.append({'campaign': 'serials', 'lo': 61 + i * sstep, 'hi': min(MAXS + 1, 61 + (i + 1) * sstep)})
        if tier == 'quick':
            for i in range(8):
                specs.append({'campaign': 'datetimes', 'n': 8000, 'seed': seed, 'i': i})
                specs.append({'campaign': 'formulas', 'n': 1200, 'seed': seed, 'i': i, 'lo': None})
            specs.append({'campaign': 'formulas_days', 'lo': ORD0, 'hi': ORD0 + 366, 'seed': seed})
            specs.append({'campaign': 'timezones', 'n': 40, 'seed': seed, 'step': 997, 'serial_thin': 20})
        else:
            for i in range(16):
                specs.append({'campaign': 'datetimes', 'n': 150000, 'seed': seed, 'i': i})
                specs.append({'campaign': 'formulas', 'n': 40000, 'seed': seed, 'i': i, 'lo': None})
            specs.append({'campaign': 'timezones', 'n': 1500, 'seed': seed})
            # every day at formula level (DATEVALUE(DATE()), YEAR/MONTH/DAY(serial)), 64 shards
            k = 64
            st = (ORDN - ORD0 + 1 + k - 1) // k
            for i in range(k):
                specs.append({'campaign': 'formulas_days', 'lo': ORD0 + i * st, 'hi': min(ORDN + 1, ORD0 + (i + 1) * st), 'seed': seed})
        return specs

    def run(self, spec, rec):
        env.load()
        from hotxlfp.formulas import utils
        from ..oracle import Guarded
        getattr(self, 'c_' + spec['campaign'])(spec, rec, Guarded(utils, rec, 'C13'))

    # ---------------------------------------------------------------- function level
    def c_days(self, spec, rec, utils):
        prev = None
        if spec['lo'] > ORD0:
            prev = utils.serialize_date(D.fromordinal(spec['lo'] - 1))
        for o in range(spec['lo'], spec['hi']):
            d = D.fromordinal(o)
            s = utils.serialize_date(d)
            rec.case()
            if not is_num(s):
                rec.violation('C13/serial-not-a-number', date=d, got=s)
                continue
            if d >= MARCH1 and s != o - BASE_ORD:
                rec.violation('C13/serial-of-day' + self.where(d), date=d, got=s, expected=o - BASE_ORD)
            back = utils.parse_date(s)
            if not dt_close(back, d):
                rec.violation('C13/day-does-not-round-trip' + self.where(d), date=d, serial=s, back=back)
            if prev is not None and not (prev < s):
                rec.violation('C13/serials-not-strictly-increasing' + self.where(d), date=d, serial=s, previous_day_serial=prev)
            prev = s
            rec.nt(('day', o))
        rec.count('days_enumerated', spec['hi'] - spec['lo'])
        rec.sample({'day': str(D.fromordinal(spec['lo']).date()), 'serial': utils.serialize_date(D.fromordinal(spec['lo']))})

    @staticmethod
    def where(d):
        if d < MARCH1:
            return ':jan-feb-1900'
        if d == MARCH1:
            return ':1-march-1900'
        return ''

    def c_serials(self, spec, rec, utils):
        for s in range(spec['lo'], spec['hi']):
            d = utils.parse_date(s)
            rec.case()
            exp = D.fromordinal(BASE_ORD + s)
            if d != exp:
                rec.violation('C13/date-of-serial' + (':61' if s == 61 else ''), serial=s, got=d, expected=exp)
                continue
            back = utils.serialize_date(d)
            if back != s:
                rec.violation('C13/serial-does-not-round-trip' + (':61' if s == 61 else ''), serial=s, date=d, back=back)
            rec.nt(('serial', s))
        rec.count('serials_enumerated', spec['hi'] - spec['lo'])
        rec.sample({'serial': spec['lo'], 'date': str(utils.parse_date(spec['lo']))})

    def rand_dt(self, rnd, lo_year=1900):
        k = rnd.random()
        if k < 0.15:
            o = rnd.randrange(ORD0, ORD0 + 90)
        elif k < 0.25:
            o = rnd.randrange(ORDN - 400, ORDN + 1)
        else:
            o = rnd.randrange(ORD0, ORDN + 1)
        d = D.fromordinal(o)
        k = rnd.random()
        if k < 0.2:
            return d
        if k < 0.3:
            return d + datetime.timedelta(hours=23, minutes=59, seconds=59, milliseconds=999)
        if k < 0.4:
            return d + datetime.timedelta(milliseconds=rnd.choice([1, 2, 500, 999, 1000, 43200000]))
        return d + datetime.timedelta(milliseconds=rnd.randrange(86400000))

    def c_datetimes(self, spec, rec, utils):
        rnd = self.rng(spec)
        top = D(9999, 12, 31, 23, 59, 59, 999000)
        for _ in range(spec['n']):
            a = self.rand_dt(rnd)
            sa = utils.serialize_date(a)
            rec.case()
            if not is_num(sa):
                rec.violation('C13/serial-not-a-number', date=a, got=sa)
                continue
            if a >= MARCH1 and abs(Fr(sa) - serial_of(a)) > Fr(1, 10 ** 8):
                rec.violation('C13/serial-of-datetime' + self.where(a), date=a, got=sa, expected=float(serial_of(a)))
            back = utils.parse_date(sa)
            if not dt_close(back, a):
                rec.violation('C13/datetime-does-not-round-trip' + self.where(D(a.year, a.month, a.day)), date=a, serial=sa, back=back)
            # strict monotonicity against a later date-time: 1 ms later, later the same day, or random
            k = rnd.random()
            try:
                b = a + datetime.timedelta(milliseconds=1) if k < 0.4 else (a + datetime.timedelta(milliseconds=rnd.randrange(1, 86400000)) if k < 0.7 else self.rand_dt(rnd))
            except OverflowError:       # a is in the last day of year 9999
                continue
            if b > top or b == a:
                continue
            lo, hi = (a, b) if a < b else (b, a)
            slo, shi = utils.serialize_date(lo), utils.serialize_date(hi)
            if not (is_num(slo) and is_num(shi) and slo < shi):
                rec.violation('C13/serials-not-strictly-increasing' + self.where(D(lo.year, lo.month, lo.day)), earlier=lo, later=hi, serial_earlier=slo, serial_later=shi)
            rec.nt(('dt', a.isoformat(), b.isoformat()))
            rec.sample({'datetime': a.isoformat(), 'serial': sa})

    # ---------------------------------------------------------------- formula level
    @staticmethod
    def dcall(d):
        return 'DATE(%d,%d,%d)' % (d.year, d.month, d.day)

    def c_formulas_days(self, spec, rec, utils):
        e = hx.Env()
        for o in range(spec['lo'], spec['hi']):
            d = D.fromordinal(o)
            rec.case()
            v = e.val('DATEVALUE(%s)' % self.dcall(d))
            if d >= MARCH1:
                s = o - BASE_ORD
                if v != s:
                    rec.violation('C13/formula:DATEVALUE(DATE)' + self.where(d), formula='DATEVALUE(%s)' % self.dcall(d), got=v, expected=s)
                ymd = (e.val('YEAR(%d)' % s), e.val('MONTH(%d)' % s), e.val('DAY(%d)' % s))
                if ymd != (d.year, d.month, d.day):
                    rec.violation('C13/formula:YEAR-MONTH-DAY(serial)' + self.where(d), serial=s, got=ymd, expected=(d.year, d.month, d.day))
                rec.nt(('fday', o))
            else:
                if not is_num(v):
                    rec.violation('C13/formula:DATEVALUE(DATE)' + self.where(d), formula='DATEVALUE(%s)' % self.dcall(d), got=v)
        rec.count('formula_days', spec['hi'] - spec['lo'])
        rec.sample({'formula': 'DATEVALUE(%s)' % self.dcall(D.fromordinal(spec['lo']))})

    def c_formulas(self, spec, rec, utils):
        rnd = self.rng(spec)
        e = hx.Env()
        for _ in range(spec['n']):
            a = self.rand_day(rnd)
            b = self.rand_day(rnd)
            A, B = self.dcall(a), self.dcall(b)
            sa, sb = a.toordinal() - BASE_ORD, b.toordinal() - BASE_ORD
            same_side = (a >= MARCH1) == (b >= MARCH1)
            if a >= MARCH1:
                self.expect_num(rec, e, 'N(%s)' % A, sa, 'N(DATE)')
                self.expect_num(rec, e, 'DATEVALUE("%s")' % a.strftime('%Y-%m-%d'), sa, 'DATEVALUE(text)')
                self.expect_is(rec, e, '%s=%d' % (A, sa), True, 'DATE=serial')
                self.expect_is(rec, e, '%s<%d' % (A, sa + 1), True, 'DATE<serial+1')
                self.expect_is(rec, e, '%s>%d' % (A, sa - 1), True, 'DATE>serial-1')
                self.expect_is(rec, e, '%d>=%s' % (sa, A), True, 'serial>=DATE')
                # adding / subtracting n days
                n = rnd.choice([0, 1, -1, 28, 365, -365, 36524, rnd.randint(-3000000, 3000000), rnd.randint(-400, 400)])
                frac = rnd.random() < 0.15
                nn = n + 0.5 if frac else n
                tgt_o = a.toordinal() + n
                forms = []
                if nn >= 0:
                    forms += ['%s+%s' % (A, hx.numlit(nn)), '%s+%s' % (hx.numlit(nn), A)]
                else:
                    forms += ['%s-%s' % (A, hx.numlit(-nn)), '%s+(-%s)' % (A, hx.numlit(-nn))]
                forms.append('d_a+n_n')
                # a host's date-times are often instances of a datetime subclass (pandas.Timestamp, pendulum, freezegun): same instant, same serial
                e.bind(d_a=(Stamp(a.year, a.month, a.day) if rnd.random() < 0.3 else a), n_n=nn)
                for f in forms:
                    r = e.raw(f)
                    rec.case()
                    if tgt_o - BASE_ORD + (0.5 if frac else 0) < 0:
                        if r['error'] != '#NUM!':
                            rec.violation('C13/formula:date-before-1900-not-#NUM!', formula=f, record=r, date=a, n=nn)
                    elif tgt_o >= MARCH1.toordinal() and tgt_o <= ORDN - 1:
                        exp = D.fromordinal(tgt_o) + datetime.timedelta(hours=12 if frac else 0)
                        if r['error'] is not None or not dt_close(r['result'], exp):
                            rec.violation('C13/formula:DATE+n' + self.where(D.fromordinal(tgt_o)), formula=f, record=r, date=a, n=nn, expected=exp)
                        rec.nt(('add', f, str(a), nn))
            # ... and adding days-with-a-fraction to a date-time with a time of day: the very date-time that much later, to the millisecond,
            # as the VALUE of the formula (not only seen through N or a comparison)
            if a >= MARCH1 and a.year < 9990:
                secs = rnd.choice([0, 1, 59, 3599, 43200, 86399, rnd.randrange(86400), rnd.randrange(86400)])
                dtm = a + datetime.timedelta(seconds=secs)
                add = rnd.choice([0, 1, 3600, 86400, 86399, 1800, rnd.randrange(0, 10 * 86400), rnd.randrange(0, 400 * 86400)])
                e.bind(d_t=dtm, n_t=add / 86400.0)
                for f, exp in (('d_t+n_t', dtm + datetime.timedelta(seconds=add)), ('n_t+d_t', dtm + datetime.timedelta(seconds=add)), ('d_t-n_t', dtm - datetime.timedelta(seconds=add)), ('d_t+0', dtm)):
                    if exp < MARCH1:
                        continue
                    r = e.raw(f)
                    rec.case()
                    ok = r['error'] is None and isinstance(r['result'], datetime.datetime) and abs((r['result'] - exp).total_seconds()) <= 0.0005
                    if not ok:
                        rec.violation('C13/formula:date-time+days-is-not-the-date-time-that-much-later' + self.where(exp), formula=f, d_t=dtm, n_t=add / 86400.0, record=r, expected=exp)
                    rec.nt(('add-time', str(dtm), add, f))
            if a >= MARCH1 and b >= MARCH1:
                self.expect_num(rec, e, '%s-%s' % (B, A), sb - sa, 'DATE-DATE')
                self.expect_num(rec, e, 'DAYS(%s,%s)' % (B, A), sb - sa, 'DAYS')
            # comparisons must order like the dates (all of 1900..9999: monotonicity)
            for op, exp in (('<', a < b), ('=', a == b), ('>', a > b), ('<=', a <= b), ('>=', a >= b), ('<>', a != b)):
                self.expect_is(rec, e, '%s%s%s' % (A, op, B), exp, 'DATE%sDATE' % op)
            rec.sample({'formulas': ['%s-%s' % (B, A), 'N(%s)' % A]})
            self.with_time_of_day(rec, e, rnd)
            self.same_serial_everywhere(rec, e, rnd)

    def same_serial_everywhere(self, rec, e, rnd):
        """whatever the serial of a date-time is (before 1 March 1900 it is the library's own), N, DATEVALUE, DAYS(d,0) and the comparison
        operators report the same one"""
        k = rnd.random()
        if k < 0.35:
            day = D(1900, 1, 1) + datetime.timedelta(days=rnd.choice([0, 0, 0, 1, 30, 58, 59]))
        elif k < 0.5:
            day = D(1900, 3, 1) + datetime.timedelta(days=rnd.randint(0, 3))
        else:
            day = D.fromordinal(rnd.randrange(ORD0, ORDN))
        d = day + datetime.timedelta(seconds=rnd.choice([0, 1, 43200, 86399, rnd.randrange(86400)]))
        e.bind(d_x=d)
        n = e.val('N(d_x)')
        rec.case()
        if not is_num(n):
            rec.violation('C13/formula:N(date-time)-not-a-number' + self.where(day), d_x=d, got=n)
            return
        dv, dz = e.val('DATEVALUE(d_x)'), e.val('DAYS(d_x,0)')
        e.bind(n_x=n)
        eq, le, ge = e.val('d_x=n_x'), e.val('d_x<=n_x'), e.val('d_x>=n_x')
        whole = math.floor(n)
        ok = is_num(dv) and (abs(dv - n) < 1e-7 or dv == whole) and is_num(dz) and (abs(dz - n) < 1e-7 or dz == whole) and eq is True and le is True and ge is True
        if not ok:
            rec.violation('C13/formula:N-DATEVALUE-DAYS-and-comparisons-disagree-on-the-serial' + self.where(day), d_x=d, N=n, DATEVALUE=dv, DAYS_from_0=dz, equals_N=eq, le=le, ge=ge)
        rec.nt(('same-serial', d.isoformat()))
        # ... and the difference of two date-times is the difference of those serials, on whichever sides of 1 March 1900 they lie
        k = rnd.random()
        day2 = (D(1900, 1, 1) + datetime.timedelta(days=rnd.choice([0, 1, 30, 58, 59, 60, 61, 100]))) if k < 0.5 else D.fromordinal(rnd.randrange(ORD0, ORDN))
        d2 = day2 + datetime.timedelta(seconds=rnd.choice([0, 0, 43200, rnd.randrange(86400)]))
        e.bind(d_y=d2)
        n2 = e.val('N(d_y)')
        if is_num(n2):
            # (day arithmetic that lands before 1 March 1900 is in the library's own numbering there and is not judged)
            for f, exp in (('d_x-d_y', n - n2), ('d_y-d_x', n2 - n)) + ((('(d_x+7)-d_x', 7), ('d_x-(d_x-3)', 3)) if day >= D(1900, 3, 5) else ()):
                g = e.val(f)
                rec.case()
                if not (is_num(g) and abs(g - exp) < 1e-7):
                    rec.violation('C13/formula:difference-of-two-dates-is-not-the-difference-of-their-serials' + self.where(min(day, day2)), formula=f, d_x=d, d_y=d2, N_x=n, N_y=n2, got=g, expected=exp)
            rec.nt(('serial-difference', d.isoformat(), d2.isoformat()))

    def with_time_of_day(self, rec, e, rnd):
        """the same serial (now with its time-of-day fraction) seen through N, DATEVALUE, DAYS, - and the comparisons, for
        date-times supplied by the host and written as text"""
        top = D(9999, 12, 31, 23, 59, 59)
        a, b = self.rand_dt(rnd), self.rand_dt(rnd)
        if rnd.random() < 0.4:      # same or neighbouring day: the fractions decide
            try:
                b = D.fromordinal(a.toordinal() + rnd.choice([0, 0, 1, -1])) + (self.rand_dt(rnd) - D.min) % datetime.timedelta(days=1)
            except (OverflowError, ValueError):     # the day after 9999-12-31 / before 0001-01-01 does not exist
                return
        if not (MARCH1 <= a <= top and MARCH1 <= b <= top):
            return
        if rnd.random() < 0.5:      # whole seconds, so that the text forms carry the same instant
            a, b = a.replace(microsecond=0), b.replace(microsecond=0)
        sa, sb = serial_of(a), serial_of(b)
        fa, fb = sa.numerator // sa.denominator, sb.numerator // sb.denominator
        if rnd.random() < 0.3:
            e.bind(d_a=Stamp(a.year, a.month, a.day, a.hour, a.minute, a.second, a.microsecond), d_b=Stamp(b.year, b.month, b.day, b.hour, b.minute, b.second, b.microsecond))
            rec.count('datetime_subclass_operands')
        else:
            e.bind(d_a=a, d_b=b)
        MS = Fr(2, 10 ** 8)

        def num(f, what, *accepted):
            v = e.val(f)
            rec.case()
            if not (is_num(v) and any(abs(Fr(v) - x) <= 4 * MS for x in accepted)):
                rec.violation('C13/formula:' + what, formula=f, d_a=a, d_b=b, got=v, accepted=[float(x) for x in accepted])
            rec.nt((what, f, a.isoformat(), b.isoformat()))
        num('N(d_a)', 'N(date-time)', sa)
        num('d_b-d_a', 'datetime-datetime', sb - sa)
        num('N(d_b)-%s' % hx.numlit(float(sa)), 'N(datetime)-serial', sb - sa)
        # DAYS / DATEVALUE: the serial itself (as the code does) or its whole-day part (as Excel does) - never anything else
        num('DAYS(d_b,d_a)', 'DAYS(date-times)', sb - sa, fb - fa)
        num('DATEVALUE(d_a)', 'DATEVALUE(date-time)', sa, fa)
        if a.microsecond == 0 and b.microsecond == 0:
            ta, tb = a.strftime('%Y-%m-%d %H:%M:%S'), b.strftime('%Y-%m-%dT%H:%M:%S')
            num('DAYS("%s","%s")' % (tb, ta), 'DAYS(date-time text)', sb - sa, fb - fa)
            num('DAYS(d_b,"%s")' % ta, 'DAYS(date-time text)', sb - sa, fb - fa)
            num('DATEVALUE("%s")' % ta, 'DATEVALUE(date-time text)', sa, fa)
            # whichever of the two readings DATEVALUE takes, it takes the same one for the same instant however that instant arrives
            v_txt, v_obj, v_cmp = e.val('DATEVALUE("%s")' % ta), e.val('DATEVALUE(d_a)'), e.val('DATEVALUE("%s")=DATEVALUE(d_a)' % ta)
            rec.case()
            if not (is_num(v_txt) and is_num(v_obj) and abs(v_txt - v_obj) < 1e-7 and v_cmp is True):
                rec.violation('C13/formula:DATEVALUE-sees-another-serial-for-text-than-for-the-same-date-time', text=ta, d_a=a, from_text=v_txt, from_date_time=v_obj, equal=v_cmp)
            num('"%s"-"%s"' % (tb, ta), 'datetime-datetime(text)', sb - sa)
        for op, exp in (('<', a < b), ('=', a == b), ('>', a > b), ('<=', a <= b), ('>=', a >= b), ('<>', a != b)):
            self.expect_is(rec, e, 'd_a%sd_b' % op, exp, 'datetime%sdatetime' % op)
        # the whole number of its day (an int, on either side) is below a date-time with a time of day, equal to it at midnight
        midnight = (a.hour, a.minute, a.second, a.microsecond) == (0, 0, 0, 0)
        e.bind(n_day=int(fa), n_next=int(fa) + 1)
        for f_, exp in (('n_day=d_a', midnight), ('n_day<d_a', not midnight), ('n_day>=d_a', midnight), ('d_a>n_day', not midnight), ('d_a=n_day', midnight), ('n_next>d_a', True), ('n_next<=d_a', False),
                        ('%d=d_a' % fa, midnight), ('%d<d_a' % fa, not midnight)):
            self.expect_is(rec, e, f_, exp, 'whole-number-vs-datetime')
        if abs(sa - sb) > 8 * MS:
            self.expect_is(rec, e, 'd_a<%s' % hx.numlit(float(sb)), a < b, 'datetime<serial')
            self.expect_is(rec, e, '%s>=d_b' % hx.numlit(float(sa)), a >= b, 'serial>=datetime')

    ZONES = ['EST5EDT,M3.2.0,M11.1.0', 'CET-1CEST,M3.5.0,M10.5.0/3', 'AEST-10AEDT,M10.1.0,M4.1.0/3', 'IST-5:30', 'NZST-12NZDT,M9.5.0,M4.1.0/3', 'HST10', 'UTC0']

    def c_timezones(self, spec, rec, utils):
        """Naive date-times carry no zone: the serial of a date is the same number wherever the process runs.  The worker's zone is switched
        (TZ + tzset, POSIX rules so that no zone database is needed) to zones with daylight-saving rules on both hemispheres and to a half-hour
        offset, and a thinned copy of the day sweep, the serial sweep, the date-time workload and the formula workload runs in each."""
        import os, time
        old = os.environ.get('TZ')
        real_violation = rec.violation
        try:
            for z in self.ZONES:
                os.environ['TZ'] = z
                time.tzset()
                rec.violation = lambda key, _z=z, **w: real_violation(key + ':process-time-zone-not-UTC', process_time_zone=_z, **w)
                step = spec.get('step', 53)
                lo = ORD0 + (hash(z) % step)
                days = list(range(lo, ORDN + 1, step)) + [datetime.date(y, m, d).toordinal() for y in (1970, 2021, 2024) for (m, d) in ((3, 14), (3, 28), (3, 29), (7, 1), (10, 31), (11, 7), (12, 31))]
                prev_o = None
                for o in sorted(set(days)):
                    d = D.fromordinal(o)
                    sv = utils.serialize_date(d)
                    rec.case()
                    if not (is_num(sv) and (d < MARCH1 or sv == o - BASE_ORD)):
                        rec.violation('C13/serial-of-day' + self.where(d), date=d, got=sv, expected=o - BASE_ORD)
                    elif not dt_close(utils.parse_date(sv), d):
                        rec.violation('C13/day-does-not-round-trip' + self.where(d), date=d, serial=sv, back=utils.parse_date(sv))
                    for h in (1, 2, 3, 12, 23):
                        dt = d + datetime.timedelta(hours=h, minutes=30)
                        sh = utils.serialize_date(dt)
                        if d >= MARCH1 and not (is_num(sh) and abs(Fr(sh) - serial_of(dt)) <= Fr(1, 10 ** 8)):
                            rec.violation('C13/serial-of-datetime' + self.where(d), date=dt, got=sh, expected=float(serial_of(dt)))
                        elif is_num(sh) and not dt_close(utils.parse_date(sh), dt):
                            rec.violation('C13/datetime-does-not-round-trip' + self.where(d), date=dt, serial=sh, back=utils.parse_date(sh))
                    rec.nt(('tz-day', z, o))
                for sn in range(61 + (hash(z) % 997), MAXS + 1, 997 * spec.get('serial_thin', 1)):
                    dd = utils.parse_date(sn)
                    rec.case()
                    if dd != D.fromordinal(BASE_ORD + sn):
                        rec.violation('C13/date-of-serial', serial=sn, got=dd, expected=D.fromordinal(BASE_ORD + sn))
                self.c_formulas({'campaign': 'formulas', 'n': spec['n'], 'seed': spec['seed'], 'i': 'tz:' + z}, rec, utils)
                rec.count('timezones_exercised')
        finally:
            rec.violation = real_violation
            if old is None:
                os.environ.pop('TZ', None)
            else:
                os.environ['TZ'] = old
            time.tzset()

    def rand_day(self, rnd):
        k = rnd.random()
        if k < 0.2:
            o = rnd.randrange(ORD0, ORD0 + 120)
        elif k < 0.3:
            o = rnd.choice([ORDN, ORDN - 1, datetime.date(2000, 2, 29).toordinal(), datetime.date(2100, 3, 1).toordinal(), datetime.date(1904, 1, 1).toordinal()])
        else:
            o = rnd.randrange(ORD0, ORDN + 1)
        return D.fromordinal(o)

    def expect_num(self, rec, e, f, exp, what):
        v = e.val(f)
        rec.case()
        if not (is_num(v) and close(v, exp)):
            rec.violation('C13/formula:' + what, formula=f, got=v, expected=exp)
        rec.nt((what, f))

    def expect_is(self, rec, e, f, exp, what):
        v = e.val(f)
        rec.case()
        if v is not exp:
            rec.violation('C13/formula:' + what, formula=f, got=v, expected=exp)
        rec.nt((what, f))

    def c_sentinels(self, spec, rec, utils):
        e = hx.Env()
        self.expect_num(rec, e, 'DATEVALUE(DATE(1900,3,1))', 61, 'DATEVALUE(DATE):1-march-1900')
        self.expect_num(rec, e, 'DATEVALUE(DATE(1900,3,2))', 62, 'DATEVALUE(DATE)')
        self.expect_num(rec, e, 'N(DATE(1900,3,1))', 61, 'N(DATE):1-march-1900')
        self.expect_num(rec, e, 'DATE(1900,3,2)-DATE(1900,3,1)', 1, 'DATE-DATE:1-march-1900')
        self.expect_is(rec, e, 'DATE(1900,3,1)<DATE(1900,3,2)', True, 'DATE<DATE:1-march-1900')
        self.expect_is(rec, e, 'DATE(1900,2,28)<DATE(1900,3,1)', True, 'DATE<DATE:1-march-1900')
        r = e.raw('DATE(1900,3,1)+1')
        rec.case()
        if r['result'] != D(1900, 3, 2):
            rec.violation('C13/formula:DATE+n:1-march-1900', formula='DATE(1900,3,1)+1', record=r, expected=D(1900, 3, 2))
        r = e.raw('DATE(2019,1,1)-50000')
        rec.case()
        if r['error'] != '#NUM!':
            rec.violation('C13/formula:date-before-1900-not-#NUM!', formula='DATE(2019,1,1)-50000', record=r)

    def judge(self, merged, tier):
        c = merged['counts']
        why = []
        if c.get('contract_evals.C13.serialize_date', 0) == 0 or c.get('contract_evals.C13.parse_date', 0) == 0:
            why.append('serial contracts never evaluated')
        if c.get('days_enumerated', 0) != ORDN - ORD0 + 1:
            why.append('day sweep incomplete')
        if c.get('serials_enumerated', 0) != MAXS - 61 + 1:
            why.append('serial sweep incomplete')
        return why

    def extra(self, merged):
        c = merged['counts']
        return {'exhaustive': c.get('days_enumerated', 0) == ORDN - ORD0 + 1 and c.get('serials_enumerated', 0) == MAXS - 60,
                'exhaustive_subspace': 'function level: all %d calendar days 1900-01-01..9999-12-31 and all %d integer serials 61..2958465' % (ORDN - ORD0 + 1, MAXS - 60)}
