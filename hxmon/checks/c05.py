"""C05 - lexical conventions: literals, whitespace, separators, case, empty arguments.

Boundary recorder + a recording custom function REC(*args) + a cell/range listener recording labels:
literals are compared with the exactly spelled number/text; renderings of one formula that differ only in
inter-token whitespace, separator style or letter case of cell references must give the same outcome *and* the same
recorded argument tuples / labels; every present/absent pattern of 1-6 slots is checked against the slot model for each
of the three separators; array literals against their shape.  A reduction probe witnesses which productions ran.
"""
import itertools
from fractions import Fraction as Fr

from .common import FormulaCheck
from ..oracle import outcome, canon, is_num
from ..gen import exprs as G
from ..models import rational as R
from .. import hx, probe

WS = ['', '', ' ', '  ', '\t', '\n', '\r\n', ' \t ', '\n\n ']
SEPS = [',', ';', '\\']


def has_trailing_backslash_then_later_quote(content, q, rest):
    return content.endswith('\\') and q in rest


class Check(FormulaCheck):
    ID = 'C05'
    TITLE = 'Lexical conventions: literals, whitespace, separators, case, empty arguments'
    TECHNIQUE = 'boundary recorder + recording custom function and listeners; exact literal oracle; rendering-invariance oracle; slot model'
    RULE = ('case = one literal (digit strings of 1-60 digits, d.d, .d, n%, a^b; quoted text over ASCII, quotes of the other kind, backslashes, separators, '
            'newlines, accented/CJK letters, as whole formula / argument / array element), or one pair of renderings of a generated formula differing in '
            'whitespace at token boundaries, separator style or cell-reference case, or one slot pattern (all 2^n present/absent patterns, n<=6, x 3 separators), '
            'or one array literal. non-trivial = oracle evaluated on an accepted formula (rejected slot patterns are counted separately); distinct = distinct formula text.')
    ASSUMPTIONS = ('tokens are the generator\'s atoms (numeric literal, reference, name, string, operator, NAME( ); no whitespace inside them, none leading/trailing',
                   'literals up to 60 digits at random, and of 1-2 digits around the int<->text limit of the interpreter; the slot clause is conditional on acceptance; only cell references are claimed case-insensitive',
                   'arrays of three rows or with rows of length 1 are outside the statement')

    def plan(self, tier, seed):
        q = tier == 'quick'
        specs = [{'campaign': 'sentinels'}, {'campaign': 'slots', 'seed': seed}, {'campaign': 'percent', 'lo': 0, 'hi': 10001}]
        for i in range(16):
            specs.append({'campaign': 'literals', 'seed': seed, 'n': 1500 if q else 30000, 'i': i})
            specs.append({'campaign': 'strings', 'seed': seed, 'n': 1200 if q else 25000, 'i': i})
            specs.append({'campaign': 'renderings', 'seed': seed, 'n': 900 if q else 18000, 'i': i, 'layouts': 4 if q else 8})
            specs.append({'campaign': 'arrays', 'seed': seed, 'n': 200 if q else 8000, 'i': i})
        # a literal spells the same number whatever decimal context the host thread has set (few digits, another rounding, the Inexact trap)
        for k, dc in enumerate(({'prec': 6}, {'prec': 3, 'rounding': 'ROUND_DOWN'}, {'prec': 28, 'trap_inexact': True})):
            specs.append({'campaign': 'literals', 'seed': seed, 'n': 600 if q else 10000, 'i': 'dc%d' % k, 'decimal_context': dc})
            specs.append({'campaign': 'percent', 'lo': 0, 'hi': 2001, 'decimal_context': dc})
        for lim in (0, 640):
            specs.append({'campaign': 'literals', 'seed': seed, 'n': 300 if q else 3000, 'i': 'lim%d' % lim, 'int_max_str_digits': lim})
        return specs

    def prepare(self, spec, rec):
        self.log = []
        p = self.e.p
        p.set_function('REC', lambda *a: (self.log.append(('REC', canon(list(a)))), len(a))[1])
        G.install_refs(p)
        p.on('callCellValue', lambda cell, setter: self.log.append(('cell', cell.label)))
        p.on('callRangeValue', lambda a, b, setter: (self.log.append(('range', a.label, b.label)), setter([1, 2, 3])))
        self.trace = probe.ReductionTrace()
        self.trace.start()

    def run(self, spec, rec):
        try:
            FormulaCheck.run(self, spec, rec)
        finally:
            tr = getattr(self, 'trace', None)
            if tr is not None:
                tr.stop()
                for k, v in tr.totals.items():
                    rec.cov('productions', k)

    def run_logged(self, f):
        del self.log[:]
        r = self.parse(f)
        return r, list(self.log)

    # ------------------------------------------------------------------ numeric literals
    def c_literals(self, spec, rec):
        rnd = self.rng(spec)
        self.long_literals(rec, rnd)
        for _ in range(spec['n']):
            k = rnd.random()
            nd = rnd.choice([1, 2, 3, 8, 15, 16, 17, 18, 30, 60, rnd.randint(1, 60)])
            digits = ''.join(rnd.choice('0123456789') for _ in range(nd))
            if rnd.random() < 0.2:
                digits = '0' * rnd.randint(1, 3) + digits
            if k < 0.3:
                txt, exp, form = digits, int(digits), 'digits'
            elif k < 0.55:
                frac = ''.join(rnd.choice('0123456789') for _ in range(rnd.choice([1, 2, 3, 10, 17, 30])))
                txt = digits + '.' + frac
                exp, form = float(Fr(int(digits + frac), 10 ** len(frac))), 'digits.digits'
            elif k < 0.75:
                frac = ''.join(rnd.choice('0123456789') for _ in range(rnd.choice([1, 2, 3, 10, 17, 30])))
                txt = '.' + frac
                exp, form = float(Fr(int(frac), 10 ** len(frac))), '.digits'
            elif k < 0.88:
                n = rnd.choice([rnd.randint(0, 10 ** 6), rnd.randint(0, 100), int(digits[:9])])
                txt, exp, form = '%d%%' % n, float(Fr(n, 100)), 'integer%'
            else:
                a, b = rnd.randint(0, 99), rnd.randint(0, 30)
                txt, exp, form = '%d^%d' % (a, b), a ** b, 'integer^integer'
            ctx = rnd.choice(['whole', 'whole', 'arg', 'array', 'operand', 'paren'])
            f = {'whole': txt, 'arg': 'REC(1,%s)' % txt, 'array': '{1,%s}' % txt, 'operand': '%s+0' % txt, 'paren': '(%s)' % txt}[ctx]
            r, log = self.run_logged(f)
            got = r['result']
            if ctx == 'arg':
                got = None
                for ent in log:
                    if ent[0] == 'REC':
                        got = ent[1][2]          # canon of second arg
                ok = r['error'] is None and got == canon(exp)
            elif ctx == 'array':
                ok = r['error'] is None and isinstance(got, list) and len(got) == 2 and canon(got[1]) == canon(exp)
            elif ctx == 'operand':
                ok = r['error'] is None and is_num(got) and got == exp and (not isinstance(exp, int) or isinstance(got, int))
            else:
                ok = r['error'] is None and canon(got) == canon(exp)
            self.expect('C05/numeric-literal:%s%s' % (form, ':not-correctly-rounded' if (form == 'integer%' and r['error'] is None) else ''), ok,
                        formula=f, record=r, expected=exp, recorded=log[:2])
            rec.nt(f)
            rec.cov('literal_forms', (form, ctx))
            rec.cov('literal_lengths', (form, min(len(txt), 61)))
            rec.sample({'formula': f, 'expected': repr(exp)}, k=6)

    def long_literals(self, rec, rnd):
        """'all decimal literals': also those longer than the interpreter cares to convert in one go (sys.get_int_max_str_digits(), 4300 by
        default, lowered or lifted by the host) - a whole-number literal is that whole number, never its own digits as text"""
        import sys
        lim = sys.get_int_max_str_digits() if hasattr(sys, 'get_int_max_str_digits') else 0
        for n in ([lim - 1, lim, lim + 1, lim + 2, 2 * lim + 7] if lim else [4300, 4301, 9000]):
            digits = rnd.choice('123456789') + ''.join(rnd.choice('0123456789') for _ in range(n - 1))
            exp = 0
            for i in range(0, n, 500):      # (the harness converts in pieces itself)
                exp = exp * 10 ** len(digits[i:i + 500]) + int(digits[i:i + 500])
            for f, want in ((digits, exp), ('(%s)' % digits, exp), ('%s-%s' % (digits, digits), 0), ('%s=%s' % (digits, digits), True), ('%s<%s1' % (digits, digits), True), ('-%s' % digits, -exp)):
                r = self.parse(f)
                got = r['result']
                ok = r['error'] is None and type(got) is type(want) and got == want
                self.expect('C05/numeric-literal:digits:longer-than-the-interpreter-converts-at-once', ok, formula=f[:20] + '...', digits=n, interpreter_limit=lim,
                            got=(type(got).__name__, r['error']), expected=type(want).__name__)
                rec.nt(('long', n, f[-8:]))
            rec.cov('literal_lengths', ('digits', n))
            # the same length behind a decimal point: a fraction of that many digits is an ordinary double
            frac = ''.join(rnd.choice('0123456789') for _ in range(n))
            num = 0
            for i in range(0, n, 500):
                num = num * 10 ** len(frac[i:i + 500]) + int(frac[i:i + 500])
            small = float(Fr(num, 10 ** n))
            for f, want in (('.' + frac, small), ('0.' + frac, small), ('7.' + frac, float(Fr(7 * 10 ** n + num, 10 ** n))), ('(.%s)=(0.%s)' % (frac, frac), True)):
                r = self.parse(f)
                got = r['result']
                ok = r['error'] is None and type(got) is type(want) and got == want
                self.expect('C05/numeric-literal:fraction:longer-than-the-interpreter-converts-at-once', ok, formula=f[:12] + '...', digits=n, interpreter_limit=lim,
                            got=(type(got).__name__, r['error'], got if isinstance(got, (float, bool)) else None), expected=want)
                rec.nt(('longfrac', n, f[:3]))

    def c_percent(self, spec, rec):
        """every integer percentage 0..10000"""
        for n in range(spec['lo'], spec['hi']):
            r = self.parse('%d%%' % n)
            self.expect('C05/numeric-literal:integer%:not-correctly-rounded', r['error'] is None and canon(r['result']) == canon(float(Fr(n, 100))) or
                        (r['error'] is None and n == 0 and r['result'] == 0), formula='%d%%' % n, record=r, expected=float(Fr(n, 100)))
            rec.nt(('pct', n))
        rec.count('percentages_enumerated' + ('' if not spec.get('decimal_context') else '.under_other_decimal_context'), spec['hi'] - spec['lo'])
        # long percent literals: the hundredth of a many-digit whole number, correctly rounded
        import random
        rnd = random.Random('pct:%s' % spec.get('decimal_context'))
        for _ in range(300):
            n = rnd.randrange(10 ** rnd.randint(5, 40))
            r = self.parse('%d%%' % n)
            self.expect('C05/numeric-literal:integer%:not-correctly-rounded', r['error'] is None and canon(r['result']) == canon(float(Fr(n, 100))), formula='%d%%' % n, record=r, expected=float(Fr(n, 100)))

    # ------------------------------------------------------------------ string literals
    ALPHA = 'abcXYZ019 ,.;:!?-_()[]{}#%&*+/<=>@^|~`$\\\\' + '\t\n' + 'àéîõüçñÀÉ' + '你好世界' + '"\'' * 3

    def c_strings(self, spec, rec):
        rnd = self.rng(spec)
        for _ in range(spec['n']):
            n = rnd.choice([0, 1, 2, 5, 20, 60, rnd.randint(0, 60)])
            s = ''.join(rnd.choice(self.ALPHA) for _ in range(n))
            if rnd.random() < 0.15:
                # accented letters written the OTHER way (decomposed, compatibility forms, singletons): a literal is its characters, not
                # their normal form
                k = rnd.randrange(len(s) + 1)
                s = s[:k] + rnd.choice(['e\u0301', 'A\u030a', '\u212b', '\u2126', '\uf900', '=\u0338', '\u1112\u1161\u11ab', 'n\u0303o', '\ufb01', '\u00e9\u0301', 'o\u0308\u0304', '\u1e9b\u0323']) + s[k:]
            q = rnd.choice('"\'')
            s = s.replace(q, rnd.choice(['', 'q']))          # contents never contain the delimiting quote
            ctx = rnd.choice(['whole', 'arg', 'array', 'amp', 'arg-first', 'paren'])
            lit = q + s + q
            f = {'whole': lit, 'arg': 'REC(1,%s)' % lit, 'arg-first': 'REC(%s,2,"z")' % lit, 'array': '{1,%s}' % lit, 'amp': '%s&"def"' % lit, 'paren': '(%s)' % lit}[ctx]
            r, log = self.run_logged(f)
            rest = f[f.index(lit) + len(lit):]
            key = 'C05/string-literal:' + ctx
            if has_trailing_backslash_then_later_quote(s, q, rest):
                key = 'C05/string-literal:backslash-before-closing-quote-with-later-quote'
            got = r['result']
            if ctx in ('arg', 'arg-first'):
                recs = [e for e in log if e[0] == 'REC']
                ok = r['error'] is None and len(recs) == 1 and recs[0][1][1 if ctx == 'arg-first' else 2] == canon(s)
            elif ctx == 'array':
                ok = r['error'] is None and isinstance(got, list) and len(got) == 2 and got[1] == s
            elif ctx == 'amp':
                ok = r['error'] is None and got == s + 'def'
            else:
                ok = r['error'] is None and isinstance(got, str) and got == s
            self.expect(key, ok, formula=f, content=s, record=r, recorded=log[:2])
            rec.nt(f)
            rec.cov('string_contexts', (ctx, q))
            rec.sample({'formula': f, 'content': s}, k=6)

    # ------------------------------------------------------------------ whitespace / separator / case invariance
    def layouts(self, toks, rnd, k):
        out = []
        for _ in range(k):
            s = ''
            for i, t in enumerate(toks):
                s += t
                if i + 1 < len(toks):
                    s += rnd.choice(WS)
            out.append(s)
        return out

    def recase(self, tok, rnd):
        return ''.join(c.lower() if rnd.random() < 0.5 else c.upper() for c in tok)

    def c_renderings(self, spec, rec):
        rnd = self.rng(spec)
        for _ in range(spec['n']):
            g = G.ExprGen(rnd, maxdepth=rnd.randint(1, 5), allow_div=True)
            t = g.tree()
            if rnd.random() < 0.5:
                # wrap into calls so that separators and slots take part
                t = ('call', rnd.choice(['SUM', 'MAX']), [t, ('call', 'MIN', [('int', 1), ('int', 2)]), ('int', 3)])
            items = G.render(t, 'min')
            base_toks = G.tokens(items, ',')
            base = ''.join(base_toks)
            if rnd.random() < 0.4:
                base_toks = ['REC('] + base_toks + [',', 'A1:B2', ',', '"x y"', ')']
                base = ''.join(base_toks)
            r0, log0 = self.run_logged(base)
            o0 = outcome(r0)
            for s in self.layouts(base_toks, rnd, spec['layouts']):
                r, log = self.run_logged(s)
                self.expect('C05/whitespace-changes-outcome', outcome(r) == o0 and log == log0, formula=base, spaced=s, base=r0, got=r)
                rec.nt(s)
            # separator styles: each call independently rendered with , ; or \
            for _k in range(3):
                toks = G.tokens(items, lambda: rnd.choice(SEPS))
                s = ''.join(toks)
                if base.startswith('REC('):
                    sp = rnd.choice(SEPS)
                    s = 'REC(' + s + sp + 'A1:B2' + sp + '"x y"' + ')'
                r, log = self.run_logged(s)
                self.expect('C05/separator-style-changes-outcome', outcome(r) == o0 and log == log0, formula=base, other=s, base=r0, got=r)
                rec.nt(s)
                rec.cov('separator_renderings', tuple(sorted(set(c for c in s if c in ',;\\'))))
            # letter case of cell references
            cells = set(tk for it in self._atoms(items) if it[0] == 'cell' for tk in [it[1]])
            if cells or 'A1:B2' in base:
                toks = [self.recase(tk, rnd) if (tk in cells or tk == 'A1:B2') else tk for tk in base_toks]
                s = ''.join(toks)
                r, log = self.run_logged(s)
                self.expect('C05/cell-reference-case-changes-outcome', outcome(r) == o0 and [(e[0],) + tuple(x.upper() if isinstance(x, str) else x for x in e[1:]) for e in log] == log0,
                            formula=base, other=s, base=r0, got=r)
                rec.nt(s)
            rec.sample({'formula': base}, k=6)

    def _atoms(self, items):
        for it in items:
            if it[0] == 'atom':
                if it[1][0] == 'call':
                    for sub in it[1][3]:
                        for x in self._atoms(sub):
                            yield x
                else:
                    yield it[1]
            elif it[0] == 'group':
                for x in self._atoms(it[1]):
                    yield x

    # ------------------------------------------------------------------ slots
    def c_slots(self, spec, rec):
        vals = ['1', '"b"', '3.5', 'TRUE', '{5,6}', 'xa']
        exp_vals = [1, 'b', 3.5, True, [5, 6], G.VARS['xa']]
        table = {}
        for n in range(1, 7):
            for pattern in itertools.product([True, False], repeat=n):
                if n == 1 and not pattern[0]:
                    continue
                expected = canon([exp_vals[i] if p else None for i, p in enumerate(pattern)])
                for sep in SEPS:
                    f = 'REC(' + sep.join(vals[i] if p else '' for i, p in enumerate(pattern)) + ')'
                    r, log = self.run_logged(f)
                    rec.case()
                    accepted = r['error'] is None
                    table[(pattern, sep)] = accepted
                    if accepted:
                        recs = [e for e in log if e[0] == 'REC']
                        ok = len(recs) == 1 and recs[0][1] == expected and r['result'] == n
                        if not ok:
                            rec.violation('C05/slots:accepted-call-passes-wrong-arguments:' + ('empty-slots' if not all(pattern) else 'all-present'), formula=f, recorded=recs, expected=expected)
                        rec.nt(f)
                        rec.cov('slot_patterns_accepted', (n, sep))
                    else:
                        rec.count('slot_patterns_rejected')
                        if all(pattern):
                            rec.violation('C05/slots:call-without-empty-slots-rejected', formula=f, record=r)
        # the three copy-pasted productions must agree on what they accept
        for (pattern, sep), acc in table.items():
            if sep == ',':
                for other in (';', '\\'):
                    if table[(pattern, other)] != acc:
                        rec.violation('C05/slots:separators-disagree-on-acceptance', pattern=pattern, comma=acc, other=other, other_accepts=table[(pattern, other)])
        rec.count('slot_patterns_tried', len(table))
        # callees with a FIXED parameter list (most host functions and most built-ins are): a call with another number of slots cannot
        # be 'accepted' by passing fewer or more arguments than it has slots - either it fails or every slot arrives
        import functools

        def fixed(k):
            def record(*a):
                self.log.append(('FIX', canon(list(a))))
                return len(a)
            params = ', '.join('p%d' % i for i in range(k))
            ns = {'record': record}
            exec('def FIX%d(%s):\n    return record(%s)\n' % (k, params, params), ns)
            return ns['FIX%d' % k]
        for k in range(0, 5):
            self.e.p.set_function('FIX%d' % k, fixed(k))
        self.e.p.set_function('FIXD', lambda a, b=7: (self.log.append(('FIX', canon([a, b]))), 2)[1])          # one optional parameter
        self.e.p.set_function('FIXP', functools.partial(lambda a, b, c: (self.log.append(('FIX', canon([a, b, c]))), 3)[1], 0))     # a partial: two left
        import inspect
        from hotxlfp import formulas as _formulas

        def arity(name):
            ps = list(inspect.signature(_formulas.get_for(name)).parameters.values())
            if any(q.kind == q.VAR_POSITIONAL for q in ps):
                return None
            return (sum(1 for q in ps if q.default is q.empty), len(ps))
        for k, name in [(None, 'FIX%d' % k) for k in range(0, 5)] + [(None, 'FIXD'), (None, 'FIXP')] + [(arity(b), b) for b in ('ABS', 'ATAN2', 'IF', 'LEN', 'LEFT', 'MID', 'ROUND', 'PI', 'NOT', 'POWER')]:
            for n in range(0, 6):
                for pattern in itertools.product([True, False], repeat=n):
                    if n == 1 and not pattern[0]:
                        continue
                    for sep in SEPS:
                        f = name + '(' + sep.join(vals[i] if p else '' for i, p in enumerate(pattern)) + ')'
                        r, log = self.run_logged(f)
                        rec.case()
                        rec.count('fixed_arity_calls_tried')
                        recs = [e for e in log if e[0] == 'FIX']
                        # (i) what the callFunction event shows is one entry per slot; (ii) a custom callee that ran got one argument per slot
                        if name.startswith('FIX') and recs:
                            got_n = len(recs[0][1]) - 1
                            want_n = n if name != 'FIXP' else n + 1
                            opt = 1 if (name == 'FIXD' and n == 1) else 0
                            if got_n + 0 != want_n + opt:
                                rec.violation('C05/slots:fixed-arity-callee-received-another-number-of-arguments-than-slots', formula=f, slots=n, received=recs[0][1])
                            rec.nt(f)
                        if k is not None and not (k[0] <= n <= k[1]) and r['error'] is None:
                            rec.violation('C05/slots:built-in-accepted-with-another-number-of-slots-than-parameters', formula=f, slots=n, parameters=k, record=r)
        # the same law with every kind of value in a slot - also list-valued ones (array literals of either layout, a range the host
        # answers with a list, a function returning a list): one argument per slot whatever the separator, however many slots
        import random
        rnd = random.Random('slots:%s' % spec.get('seed', 0))
        self.e.p.set_function('LST', lambda: [8, 9])
        kinds = [('1', 1), ('"b"', 'b'), ('{5,6}', [5, 6]), ('{7;8}', [7, 8]), ('{1,2;3,4}', [[1, 2], [3, 4]]), ('A1:B2', [1, 2, 3]), ('LST()', [8, 9]), ('xa', G.VARS['xa']),
                 ('{5}', [5]), ('(1+2)', 3), ('', None)]
        for _ in range(1500):
            n = rnd.randint(1, 5)
            slots = [rnd.choice(kinds) for _ in range(n)]
            if all(t == '' for t, _ in slots):
                continue
            expected = canon([v for _, v in slots])
            outcomes = {}
            for sep in SEPS:
                f = 'REC(' + sep.join(t for t, _ in slots) + ')'
                if rnd.random() < 0.3:
                    # an evaluation that fails half-way through a separator-delimited sequence must leave nothing behind on this parser
                    broken = rnd.choice(['{1,2;3,4)', 'REC(1,2;3,4}', '{1,2;3,4;5 6}', 'REC(1;2', '{1\\2;3\\4', 'REC({1,2;3,4};', 'BOOMX(1,2;3,4)', '{1;2;', 'REC(1,{2;3)', f[:rnd.randint(1, len(f))] + ')'])
                    self.parse(broken)
                    rec.count('slots.after_a_failed_evaluation')
                r, log = self.run_logged(f)
                rec.case()
                recs = [e for e in log if e[0] == 'REC']
                outcomes[sep] = (r['error'], recs[0][1] if len(recs) == 1 else None)
                if r['error'] is None:
                    if not (len(recs) == 1 and recs[0][1] == expected and r['result'] == n):
                        rec.violation('C05/slots:accepted-call-passes-wrong-arguments:list-valued-arguments', formula=f, recorded=recs, expected=expected)
                    rec.nt(f)
            if len(set(map(repr, outcomes.values()))) != 1:
                rec.violation('C05/slots:separator-choice-changes-the-arguments', slots=[t for t, _ in slots], outcomes=outcomes)
        rec.sample({'formula': 'REC(1,,3.5)', 'expected_slots': '[1, None, 3.5]'})

    # ------------------------------------------------------------------ arrays
    def c_arrays(self, spec, rec):
        rnd = self.rng(spec)
        elems = [('1', 1), ('2.5', 2.5), ('"s"', 's'), ('xa', G.VARS['xa']), ('TRUE', True), ('-3', -3), ('"a,b"', 'a,b'), ('"x;y"', 'x;y'), ('(1+2)', 3), ('10%', 0.1)]
        for _ in range(spec['n']):
            n = rnd.randint(1, 6)
            row = [rnd.choice(elems) for _ in range(n)]
            sep = rnd.choice(SEPS)
            ws = rnd.choice(['', ' '])
            f = '{' + (sep + ws).join(t for t, _ in row) + '}'
            r = self.parse(f)
            if r['error'] is None:
                self.expect('C05/array-literal:flat', canon(r['result']) == canon([v for _, v in row]), formula=f, record=r)
                rec.nt(f)
            else:
                self.expect('C05/array-literal:flat:rejected', False, formula=f, record=r)
            k = rnd.randint(2, 5)
            k2 = rnd.choice([k, k, rnd.randint(2, 5)])
            r1, r2 = [rnd.choice(elems) for _ in range(k)], [rnd.choice(elems) for _ in range(k2)]
            rs = rnd.choice([',', '\\'])
            f = '{' + rs.join(t for t, _ in r1) + ';' + rs.join(t for t, _ in r2) + '}'
            r = self.parse(f)
            if r['error'] is None:
                self.expect('C05/array-literal:two-rows', canon(r['result']) == canon([[v for _, v in r1], [v for _, v in r2]]), formula=f, record=r)
                rec.nt(f)
            else:
                self.expect('C05/array-literal:two-rows:rejected', False, formula=f, record=r)
            rec.cov('array_shapes', (sep, n))
            rec.sample({'formula': f}, k=6)

    def c_sentinels(self, spec, rec):
        for f, exp in (('57%', 0.57), ('7%', 0.07), ('100%', 1.0), ('007', 7), ('.5', 0.5), ('2^10', 1024), ('0.1', 0.1), ('123456789012345678901234567890', 123456789012345678901234567890),
                       ('"a,b"', 'a,b'), ("'it''s'", None), ('"tab\there"', 'tab\there'), ("'say \"hi\"'", 'say "hi"'), ('"back\\slash"', 'back\\slash'), ('"abc\\"', 'abc\\')):
            if exp is None:
                continue
            r = self.parse(f)
            form = 'integer%:not-correctly-rounded' if f.endswith('%') else 'sentinel'
            self.expect('C05/numeric-literal:' + form if not isinstance(exp, str) else 'C05/string-literal:whole', r['error'] is None and canon(r['result']) == canon(exp), formula=f, record=r, expected=exp)
            rec.nt(f)
        r, log = self.run_logged('"abc\\"&"def"')
        self.expect('C05/string-literal:backslash-before-closing-quote-with-later-quote', r['result'] == 'abc\\def', formula='"abc\\"&"def"', record=r)
        for f, exp in (('REC(1,",")', [1, ',']), ('REC(1;";")', [1, ';']), ('REC(1\\"\\")', [1, '\\']), ('REC(",",",")', [',', ',']), ('{1,","}', None), ('REC(1,,",")', [1, None, ','])):
            r, log = self.run_logged(f)
            if exp is None:
                ok = r['result'] == [1, ',']
            else:
                ok = r['error'] is None and [e[1] for e in log if e[0] == 'REC'] == [canon(exp)]
            self.expect('C05/slots:string-argument-equals-separator', ok, formula=f, record=r, recorded=log)
            rec.nt(f)
        r1, l1 = self.run_logged('SUM(a1,$B$2)+c3')
        r2, l2 = self.run_logged('SUM(A1,$b$2)+C3')
        self.expect('C05/cell-reference-case-changes-outcome', outcome(r1) == outcome(r2) and l1 == l2, a=r1, b=r2, la=l1, lb=l2)

    def judge(self, merged, tier):
        why = []
        c = merged['counts']
        if c.get('slot_patterns_tried', 0) != (sum(2 ** n for n in range(1, 7)) - 1) * 3:
            why.append('slot enumeration incomplete: %s' % c.get('slot_patterns_tried'))
        if c.get('percentages_enumerated', 0) != 10001:
            why.append('percent sweep incomplete')
        return why

    def extra(self, merged):
        return {'exhaustive_subspace': 'all 125 present/absent slot patterns (1-6 slots) x 3 separators; all integer percentages 0..10000'}
