"""C17 - rounding and integer functions meet their specs; radix conversions invert; every call terminates.

Boundary recorder with inequality oracles evaluated in exact rationals (band 1e-9 on each side, tightened to equality
when the argument is exactly a multiple of the unit), round-trip oracles for HEX/BASE/ROMAN/COMPLEX, and the
sys.monitoring step counter (deterministic budget in line events) for the termination clause.
"""
import math
from fractions import Fraction as Fr

from .common import FormulaCheck
from ..oracle import is_num, finite, BAND
from .. import hx, probe

DIGS = '0123456789ABCDEFGHIJKLMNOPQRSTUVWXYZ'
ROMANV = {'I': 1, 'V': 5, 'X': 10, 'L': 50, 'C': 100, 'D': 500, 'M': 1000}
LO40, HI40 = -2 ** 39, 2 ** 39


def roman_value(s):
    t = 0
    for i, c in enumerate(s):
        v = ROMANV[c]
        if i + 1 < len(s) and ROMANV[s[i + 1]] > v:
            t -= v
        else:
            t += v
    return t


def band(*xs):
    return BAND * max([1] + [abs(Fr(x)) for x in xs])


ULP = Fr(1, 2 ** 52)


def tight(*xs):
    """a few ulps of the largest magnitude involved: what scaling by a power of ten in doubles can legitimately lose"""
    return 64 * ULP * max([abs(Fr(x)) for x in xs])


def is_multiple(r, u, b):
    k = round(Fr(r) / u)
    return abs(Fr(r) - k * u) <= b


def sgn(x):
    return (x > 0) - (x < 0)


class Check(FormulaCheck):
    ID = 'C17'
    TITLE = 'Rounding and integer functions meet their specs; radix conversions invert'
    TECHNIQUE = 'boundary recorder on Parser.parse: exact-rational inequality oracles, round-trip oracles, sys.monitoring step budget for termination'
    RULE = ('case = one call of ROUND/ROUNDUP/ROUNDDOWN/CEILING/FLOOR/INT/EVEN/ODD/QUOTIENT/MOD/SIGN/FACT/FACTDOUBLE or one round trip '
            'HEX2DEC(DEC2HEX(n)), DECIMAL(BASE(n,r),r), ARABIC(ROMAN(n)), ROMAN(n,form), IMREAL/IMAGINARY(COMPLEX(a,b)); numbers are integers and '
            'dyadic/decimal fractions of either sign (|x| <= 1e9), digits -6..6, significances of either sign; 1..3999 x forms 0..4 is exhaustive. '
            'non-trivial = oracle fully evaluated; distinct = distinct (function, arguments).')
    ASSUMPTIONS = ('CEILING/FLOOR of a positive number with a negative significance may be an error or the adjacent multiple on the function\'s own side; significance 0 gives 0 or an error; ROUND tie direction is free',
                   'FACT arguments <= 170, FACTDOUBLE <= 300; quotients beyond 1e300 are not judged; bounded time is decided in line events (budget 20000+400*len), never in seconds',
                   'out-of-range arguments must give any error code, never a value')

    def plan(self, tier, seed):
        q = tier == 'quick'
        specs = [{'campaign': 'sentinels'}]
        for i in range(16):
            specs.append({'campaign': 'rounding', 'seed': seed, 'n': 2200 if q else 60000, 'i': i})
            specs.append({'campaign': 'integer', 'seed': seed, 'n': 1800 if q else 50000, 'i': i})
            specs.append({'campaign': 'radix', 'seed': seed, 'n': 4000 if q else 80000, 'i': i})
            specs.append({'campaign': 'roman', 'lo': 1 + i * 250, 'hi': min(4000, 1 + (i + 1) * 250)})
        specs.append({'campaign': 'powers'})
        for i in range(4 if q else 16):
            specs.append({'campaign': 'termination', 'seed': seed, 'n': 500 if q else 6000, 'i': i})
        return specs

    # ------------------------------------------------------------------ numbers
    @staticmethod
    def number(rnd):
        k = rnd.random()
        s = rnd.choice([1, -1])
        if k < 0.25:
            return s * rnd.choice([0, 1, 2, 5, 10, 25, 100, 300000, 10 ** 9, rnd.randint(0, 10 ** 6), rnd.randint(0, 10 ** 9)])
        if k < 0.5:
            return s * rnd.choice([0.5, 0.25, 1.5, 2.75, 0.125, 1234.0625, rnd.randint(0, 10 ** 6) / 64.0, rnd.randint(0, 10 ** 5) + 0.5])
        if k < 0.7:
            return s * round(rnd.uniform(0, 10 ** rnd.randint(0, 6)), rnd.randint(0, 6))
        if k < 0.85:
            # just beside a multiple of a power of ten: by 1e-9 .. 1e-13 of the unit (far above double noise, far below a casual epsilon)
            j = rnd.randint(-6, 3)
            m = rnd.randint(0, 2000) * 10.0 ** j
            return s * (m + rnd.choice([1, -1]) * 10.0 ** (j - rnd.randint(9, 13)))
        if k < 0.93:
            # one ulp beside a whole number (also 2**j and 2**j - 1, where the ulp changes), and whole floats at and beyond 2**53
            j = rnd.randint(0, 40)
            w = float(rnd.choice([1, 2, 3, 7, 8, 2 ** j, 2 ** j - 1, 2 ** j + 1, rnd.randint(1, 10 ** 6)]))
            return s * rnd.choice([math.nextafter(w, math.inf), math.nextafter(w, 0.0), float(2 ** 53), float(2 ** 53 + 2), 1e16, 1e17, float(3 ** 34), 2.0 ** rnd.randint(53, 70)])
        return s * rnd.choice([1.1, 2.3, 1.005, 0.1, 0.7, 1e-7, 123456.789, 0.29, 4.35, 999999999.9])

    def c_rounding(self, spec, rec):
        rnd = self.rng(spec)
        for _ in range(spec['n']):
            x = self.number(rnd)
            d = rnd.randint(-6, 6)
            u = Fr(10) ** (-d)
            X = Fr(x)
            b = tight(x, u)
            exact_multiple = (X / u).denominator == 1
            for fn in ('ROUND', 'ROUNDUP', 'ROUNDDOWN'):
                r = self.ev('%s(v_x,v_d)' % fn, v_x=x, v_d=d)
                rec.nt((fn, x, d))
                if not self.expect('C17/%s-not-a-number' % fn, finite(r), x=x, digits=d, got=r):
                    continue
                R = Fr(r)
                ok = is_multiple(r, u, tight(r, x, u))
                why = 'not-multiple-of-unit'
                if ok and fn == 'ROUND':
                    ok, why = abs(R - X) <= u / 2 + b, 'more-than-half-a-unit-away'
                elif ok and fn == 'ROUNDUP':
                    ok = abs(R) >= abs(X) - b and abs(R) - abs(X) < u + b and (sgn(R) == sgn(X) or R == 0 or abs(X) <= b)
                    why = 'not-one-unit-above-in-magnitude'
                elif ok:
                    ok = abs(R) <= abs(X) + b and abs(X) - abs(R) < u + b and (sgn(R) == sgn(X) or R == 0)
                    why = 'not-one-unit-below-in-magnitude'
                if ok and exact_multiple:
                    ok, why = abs(R - X) <= b, 'exact-multiple-not-preserved'
                self.expect('C17/%s:%s%s' % (fn, why, ':negative-digits' if d < 0 else ''), ok, x=x, digits=d, got=r)
            # whole numbers of any size: a multiple of 10^-digits within half a unit of a whole number is found in whole-number arithmetic -
            # exactly, not "within a few ulps"
            bx = rnd.choice([1, -1]) * rnd.choice([2 ** 52 + 1, 2 ** 53 + 1, 10 ** 15 + 5, 45035996273704970 + rnd.randint(0, 9), 10 ** 12 + 1, rnd.randint(2 ** 52, 2 ** 62), rnd.randint(0, 10 ** 6)])
            bd = rnd.randint(-6, 6)
            r = self.ev('ROUND(v_x,v_d)', v_x=bx, v_d=bd)
            rec.nt(('ROUND-whole', bx, bd))
            if bd >= 0:
                ok = finite(r) and Fr(r) == bx
            else:
                bu = 10 ** (-bd)
                ok = finite(r) and Fr(r).denominator == 1 and int(Fr(r)) % bu == 0 and abs(Fr(r) - bx) * 2 <= bu
            self.expect('C17/ROUND:whole-number-not-rounded-exactly', ok, x=hex(bx), digits=bd, got=hex(int(r)) if (finite(r) and Fr(r).denominator == 1) else r)
            s = rnd.choice([1, -1]) * rnd.choice([1, 2, 5, 10, 0.5, 0.25, 0.1, 0.05, 3, 7, 100, 1.5, rnd.randint(1, 50), round(rnd.uniform(0.01, 20), 2)])
            for fn in ('CEILING', 'FLOOR'):
                r = self.ev('%s(v_x,v_s)' % fn, v_x=x, v_s=s)
                rec.nt((fn, x, s))
                if x > 0 and s < 0:
                    # the documented readings differ (an error, or the sign of the significance is ignored) - but under every one of them
                    # a value, if any, is the adjacent multiple above a positive number for CEILING and below it for FLOOR
                    if not self.is_err(r):
                        R, S = Fr(r) if finite(r) else None, abs(Fr(s))
                        bb = tight(r, x, s) if finite(r) else 0
                        ok = R is not None and is_multiple(r, S, bb) and ((R >= X - bb and R - X < S + bb) if fn == 'CEILING' else (R <= X + bb and X - R < S + bb))
                        self.expect('C17/%s:not-adjacent-multiple-on-documented-side:pos-neg' % fn, ok, x=x, significance=s, got=r)
                    else:
                        rec.case()
                    continue
                if not self.expect('C17/%s-not-a-number' % fn, finite(r), x=x, significance=s, got=r):
                    continue
                R, S = Fr(r), abs(Fr(s))
                bb = tight(r, x, s)
                up = (fn == 'CEILING') == (not (x < 0 and s < 0))      # which side of x the result lies on
                ok = is_multiple(r, S, bb) and ((R >= X - bb and R - X < S + bb) if up else (R <= X + bb and X - R < S + bb))
                if ok and (X / S).denominator == 1:
                    ok = abs(R - X) <= bb
                self.expect('C17/%s:not-adjacent-multiple-on-documented-side:%s' % (fn, 'neg-neg' if (x < 0 and s < 0) else 'neg-pos' if x < 0 else 'pos-pos'),
                            ok, x=x, significance=s, got=r)
            if rnd.random() < 0.1:
                # significance 0: the only multiple of 0 is 0 - that, or an error
                for fn in ('CEILING', 'FLOOR'):
                    r = self.ev('%s(v_x,0)' % fn, v_x=x)
                    self.expect('C17/%s:significance-0-yields-a-non-multiple' % fn, self.is_err(r) or (finite(r) and r == 0), x=x, got=r)
            if rnd.random() < 0.3:
                for fn in ('CEILING', 'FLOOR'):
                    r = self.ev('%s(v_x)' % fn, v_x=x)
                    exp = math.ceil(X) if fn == 'CEILING' else math.floor(X)
                    self.expect('C17/%s:default-significance' % fn, finite(r) and Fr(r) == exp, x=x, got=r, expected=exp)
            rec.sample({'x': x, 'digits': d, 'significance': s})

    def c_integer(self, spec, rec):
        rnd = self.rng(spec)
        for _ in range(spec['n']):
            x = self.number(rnd)
            X = Fr(x)
            r = self.ev('INT(v_x)', v_x=x)
            self.expect('C17/INT', finite(r) and Fr(r) == math.floor(X), x=x, got=r)
            for fn, par in (('EVEN', 0), ('ODD', 1)):
                r = self.ev('%s(v_x)' % fn, v_x=x)
                m = math.ceil(abs(X))
                if m % 2 != par:
                    m += 1
                exp = m if X >= 0 else -m
                self.expect('C17/%s%s' % (fn, ':zero' if x == 0 else ''), finite(r) and Fr(r) == exp, x=x, got=r, expected=exp)
            r = self.ev('SIGN(v_x)', v_x=x)
            self.expect('C17/SIGN', r == sgn(X) and is_num(r), x=x, got=r)
            y = self.number(rnd)
            if rnd.random() < 0.5:
                y = rnd.choice([1, -1]) * rnd.choice([1, 2, 3, 7, 10, 0.5, 0.25, 64, rnd.randint(1, 1000)])
            Y = Fr(y)
            q = self.ev('QUOTIENT(v_x,v_y)', v_x=x, v_y=y)
            m = self.ev('MOD(v_x,v_y)', v_x=x, v_y=y)
            rec.nt(('int', x, y))
            if y == 0:
                self.expect('C17/QUOTIENT:zero-divisor-not-error', self.is_err(q), x=x, y=y, got=q)
                self.expect('C17/MOD:zero-divisor-not-error', self.is_err(m), x=x, y=y, got=m)
                continue
            Q = X / Y
            lo, hi = sorted((math.trunc(Q * (1 + BAND)), math.trunc(Q * (1 - BAND))))      # every truncation of a quotient within the band
            if abs(Q) >= 10 ** 300:
                rec.count('quotient_beyond_double_range_not_judged')      # no double holds it: an error is as good as the integer
            else:
                self.expect('C17/QUOTIENT', finite(q) and Fr(q).denominator == 1 and lo <= Fr(q) <= hi, x=x, y=y, got=q, expected=math.trunc(Q))
            ok = finite(m)
            if ok:
                M = Fr(m)
                bb = band(x, y)
                k = (X - M) / Y
                ok = (M == 0 or sgn(M) == sgn(Y)) and abs(M) < abs(Y) + bb and abs(k - round(k)) <= BAND * max(1, abs(k))
            self.expect('C17/MOD', ok, x=x, y=y, got=m)
            # whole numbers of any size: number = divisor*integer + MOD holds exactly (integers are exact, also beyond 2**53)
            bx = rnd.choice([1, -1]) * rnd.choice([2 ** 53 + 1, 10 ** 17 + 3, 3 ** 40, 2 ** 64 - 1, math.factorial(25), rnd.randint(2 ** 53, 10 ** 30), rnd.randint(0, 10 ** 6)])
            by = rnd.choice([1, -1]) * rnd.choice([2, 3, 7, 10, 1000003, 2 ** 53 + 1, rnd.randint(1, 10 ** 6), rnd.randint(2 ** 53, 10 ** 20)])
            m = self.ev('MOD(v_x,v_y)', v_x=bx, v_y=by)
            self.expect('C17/MOD:whole-numbers-exact', finite(m) and Fr(m) == bx % by, x=hex(bx), y=hex(by), got=m if not finite(m) else hex(int(m)), expected=hex(bx % by))
            rec.nt(('bigmod', bx, by))
            neg = rnd.choice([-1, -2, -0.5, -0.001, -1 / 3.0, -1e-9, -2.5, -170, -0.999999])
            for fn in ('FACT', 'FACTDOUBLE'):
                r = self.ev('%s(v_n)' % fn, v_n=neg)
                self.expect('C17/%s:negative-argument-yields-a-value' % fn, self.is_err(r), n=neg, got=r)
            n = rnd.randint(0, 170)
            frac = rnd.choice([0, 0, 0.5, 0.9])
            r = self.ev('FACT(v_n)', v_n=n + frac)
            self.expect('C17/FACT', finite(r) and Fr(r) == math.factorial(n), n=n + frac, got=r if not isinstance(r, int) or r < 10 ** 30 else '(big)')
            n = rnd.randint(0, 300)
            r = self.ev('FACTDOUBLE(v_n)', v_n=n)
            exp = 1
            for j in range(n, 1, -2):
                exp *= j
            self.expect('C17/FACTDOUBLE', finite(r) and Fr(r) == exp, n=n, got=r if not isinstance(r, int) or r < 10 ** 30 else '(big)')
            if rnd.random() < 0.1:
                hv = rnd.choice([1, -1]) * rnd.choice([10 ** 400, 2 ** 1024, 2 ** 1024 - 1, 10 ** 308 * 2, math.factorial(200), 3 ** 700 + 1])
                g = self.ev('SIGN(v_h)', v_h=hv)
                self.expect('C17/SIGN:integer-beyond-the-doubles', g == (1 if hv > 0 else -1) and type(g) is int, n='%s%d digits' % ('-' if hv < 0 else '', len(str(abs(hv)))), got=g)
                g = self.ev('INT(v_h)', v_h=hv)
                self.expect('C17/INT:integer-beyond-the-doubles', g == hv, n='%d digits' % len(str(abs(hv))), got='(other)' if g != hv else 'same')
                g = self.ev('MOD(v_h,7)', v_h=hv)
                self.expect('C17/MOD:integer-beyond-the-doubles', g == hv % 7, n='%d digits' % len(str(abs(hv))), got=g)
            a, b = rnd.randint(-10 ** 6, 10 ** 6), rnd.randint(-10 ** 6, 10 ** 6)
            if rnd.random() < 0.3:
                # integer parts of every size a double holds exactly: up to sixteen digits (2**53), of either sign, with a non-zero last digit
                big = lambda: rnd.choice([1, -1]) * rnd.choice([rnd.randint(10 ** 15, 2 ** 53), 2 ** 53 - rnd.randint(0, 9), 10 ** 15 + rnd.randint(1, 9), rnd.randint(10 ** 9, 10 ** 15),
                                                                  rnd.randint(2 ** 39, 2 ** 41), 999999999999999, 1000000000000001])
                a, b = rnd.choice([(big(), big()), (big(), rnd.randint(-9, 9)), (0, big()), (big(), 0)])
            re_, im_ = self.ev('IMREAL(COMPLEX(v_a,v_b))', v_a=a, v_b=b), self.ev('IMAGINARY(COMPLEX(v_a,v_b))', v_a=a, v_b=b)
            self.expect('C17/COMPLEX-parts', re_ == a and im_ == b, a=a, b=b, got=(re_, im_))
            rec.sample({'x': x, 'y': y})

    def c_radix(self, spec, rec):
        rnd = self.rng(spec)
        edges = [0, 1, -1, HI40 - 1, LO40, 255, -255, 2 ** 32, -2 ** 32, HI40 - 2, LO40 + 1]
        for j in range(spec['n']):
            n = edges[j] if j < len(edges) else rnd.choice([rnd.randint(LO40, HI40 - 1), rnd.randint(-70000, 70000), rnd.choice(edges) + rnd.randint(-1000, 1000)])
            if not (LO40 <= n < HI40):
                continue
            b = self.ev('HEX2DEC(DEC2HEX(v_n))', v_n=n)
            self.expect('C17/HEX2DEC(DEC2HEX(n))', b == n, n=n, hex=self.ev('DEC2HEX(v_n)', v_n=n), got=b)
            # a whole number is a whole number whether the host holds it as int or as float (510/2 is 255): same conversions, same roundings
            if abs(n) < 2 ** 52 and rnd.random() < 0.25:
                b = self.ev('HEX2DEC(DEC2HEX(v_n))', v_n=float(n))
                self.expect('C17/HEX2DEC(DEC2HEX(n)):whole-number-held-as-float', b == n, n=float(n), got=b)
                b = self.ev('HEX2DEC(DEC2HEX(v_n*2/2))', v_n=n)
                self.expect('C17/HEX2DEC(DEC2HEX(n)):whole-number-held-as-float', b == n, n='%d*2/2' % n, got=b)
            if rnd.random() < 0.25:
                x1, d1 = rnd.choice([2.567, -13.245, 1234.5678, 0.5, 99.995]), rnd.randint(-3, 3)
                a_, b_ = self.ev('ROUND(v_x,v_d)', v_x=x1, v_d=d1), self.ev('ROUND(v_x,v_d)', v_x=x1, v_d=float(d1))
                self.expect('C17/ROUND:digits-held-as-float', b_ == a_ and not self.is_err(b_), x=x1, digits=float(d1), with_int_digits=a_, got=b_)
                for fn_ in ('ROUNDUP', 'ROUNDDOWN'):
                    a_, b_ = self.ev('%s(v_x,v_d)' % fn_, v_x=x1, v_d=d1), self.ev('%s(v_x,v_d)' % fn_, v_x=x1, v_d=float(d1))
                    self.expect('C17/%s:digits-held-as-float' % fn_, b_ == a_, x=x1, digits=float(d1), with_int_digits=a_, got=b_)
                r1, m1 = rnd.randint(2, 36), rnd.randint(0, 10 ** 6)
                a_, b_ = self.ev('DECIMAL(BASE(v_n,v_r),v_r)', v_n=m1, v_r=r1), self.ev('DECIMAL(BASE(v_n,v_r),v_r)', v_n=float(m1), v_r=float(r1))
                self.expect('C17/DECIMAL(BASE(n,r),r):whole-numbers-held-as-float', a_ == m1 and b_ == m1, n=m1, radix=r1, got=(a_, b_))
                # DECIMAL reads digits in radix 2-36 only
                for bad in (0, 1, 37, -2, 100, -1, 36.5 + 1):
                    g_ = self.ev('DECIMAL(v_t,v_r)', v_t=rnd.choice(['10', '0', '1', '0x1F', '0b11', '0o17', 'Z']), v_r=bad)
                    self.expect('C17/DECIMAL:radix-outside-2-36-yields-a-value', self.is_err(g_), radix=bad, got=g_)
            rec.nt(('hex', n))
            # with a number of places: whatever text comes back still denotes n (padding adds zeros only); an error otherwise
            pl = rnd.randint(0, 12)
            t = self.ev('DEC2HEX(v_n,v_p)', v_n=n, v_p=pl)
            plain = self.ev('DEC2HEX(v_n)', v_n=n)
            tf = self.ev('DEC2HEX(v_n,v_p)', v_n=n, v_p=float(pl))
            self.expect('C17/DEC2HEX:places-held-as-float', tf == t, n=n, places=float(pl), with_int_places=t, got=tf)
            if n >= 0:
                bi, bf = self.ev('BASE(v_n,2,v_p)', v_n=n % 4096, v_p=pl), self.ev('BASE(v_n,2,v_p)', v_n=n % 4096, v_p=float(pl))
                self.expect('C17/BASE:places-held-as-float', bf == bi, n=n % 4096, places=float(pl), with_int_places=bi, got=bf)
            if not self.is_err(t):
                back = self.ev('HEX2DEC(v_t)', v_t=t)
                self.expect('C17/HEX2DEC(DEC2HEX(n,places))', back == n and isinstance(t, str) and t.lstrip('0') == str(plain).lstrip('0'), n=n, places=pl, hex=t, got=back)
            else:
                # asking for at least as many places as the number has digits only pads: the number is still convertible
                self.expect('C17/DEC2HEX:enough-places-refused', not (isinstance(plain, str) and not self.is_err(plain) and pl >= len(plain)), n=n, places=pl, plain=plain, got=t)
            r = rnd.randint(2, 36)
            m = rnd.choice([0, 1, r - 1, r, r * r - 1, rnd.randint(0, HI40 - 1), rnd.randint(0, 5000), HI40 - 1])
            t = self.ev('BASE(v_n,v_r)', v_n=m, v_r=r)
            ok = isinstance(t, str) and not self.is_err(t) and t != '' and all(c in DIGS[:r] for c in t) and int(t, r) == m
            self.expect('C17/BASE-text' + (':radix>10' if r > 10 else ''), ok, n=m, radix=r, got=t)
            if ok:
                d = self.ev('DECIMAL(BASE(v_n,v_r),v_r)', v_n=m, v_r=r)
                self.expect('C17/DECIMAL(BASE(n,r),r)', d == m, n=m, radix=r, text=t, got=d)
            rec.nt(('base', m, r))
            rec.sample({'n': n, 'radix': r, 'm': m})

    def c_powers(self, spec, rec):
        """every exact power r^k (and r^k - 1, r^k + 1) below 2^39 for every radix 2..36: where digit counts change"""
        n = 0
        for r in range(2, 37):
            k = 0
            while r ** k < HI40:
                for m in (r ** k - 1, r ** k, r ** k + 1):
                    if not (0 <= m < HI40):
                        continue
                    t = self.ev('BASE(v_n,v_r)', v_n=m, v_r=r)
                    ok = isinstance(t, str) and not self.is_err(t) and t != '' and all(c in DIGS[:r] for c in t) and int(t, r) == m
                    self.expect('C17/BASE-text:power-of-radix' + (':radix>10' if r > 10 else ''), ok, n=m, radix=r, got=t)
                    d = self.ev('DECIMAL(BASE(v_n,v_r),v_r)', v_n=m, v_r=r)
                    self.expect('C17/DECIMAL(BASE(n,r),r):power-of-radix', d == m, n=m, radix=r, text=t, got=d)
                    rec.nt(('pow', m, r))
                    n += 1
                k += 1
        for k in range(0, 10):
            for m in (16 ** k - 1, 16 ** k, 16 ** k + 1, -(16 ** k), -(16 ** k) - 1, -(16 ** k) + 1):
                if LO40 <= m < HI40:
                    b = self.ev('HEX2DEC(DEC2HEX(v_n))', v_n=m)
                    self.expect('C17/HEX2DEC(DEC2HEX(n)):power-of-16', b == m, n=m, got=b)
                    rec.nt(('hexpow', m))
        rec.count('powers_enumerated', n)
        rec.sample({'n': 1000, 'radix': 10, 'expected_text': '1000'})

    def c_roman(self, spec, rec):
        # shuffled: a result that depends on what this process evaluated before (a poisoned memo) shows as a wrong numeral
        order = list(range(spec['lo'], spec['hi']))
        self.rng(spec).shuffle(order)
        rnd0 = self.rng(spec, 'odd-forms')
        # what the process asked ROMAN before must not matter: half of the shards open with calls whose form is fractional, a logical, numeric
        # text or out of range (whatever they answer), and such calls keep being interleaved
        odd_forms = [0.5, 1.5, 2.5, 3.5, 3.999, 0.001, True, False, '2', 4.0, 5, -1, 4.5]
        if (spec['lo'] // max(1, spec['hi'] - spec['lo'])) % 2 == 0:
            for of in odd_forms:
                self.ev('ROMAN(v_n,v_f)', v_n=rnd0.choice([499, 1999, 45, 3999]), v_f=of)
            rec.count('roman_shards_opened_with_odd_forms')
        for n in order:
            if rnd0.random() < 0.05:
                self.ev('ROMAN(v_n,v_f)', v_n=n, v_f=rnd0.choice(odd_forms))
            for form in self.rng(spec, n).sample(range(5), 5):
                r = self.ev('ROMAN(v_n,v_f)', v_n=n, v_f=form)
                ok = isinstance(r, str) and not self.is_err(r) and r != '' and all(c in ROMANV for c in r) and roman_value(r) == n
                self.expect('C17/ROMAN-form-%d-does-not-denote-n' % form, ok, n=n, form=form, got=r)
                rec.nt(('roman', n, form))
            a = self.ev('ARABIC(ROMAN(v_n))', v_n=n)
            self.expect('C17/ARABIC(ROMAN(n))', a == n, n=n, roman=self.ev('ROMAN(v_n)', v_n=n), got=a)
        rec.count('roman_enumerated', spec['hi'] - spec['lo'])
        rec.sample({'n': spec['lo'], 'roman': self.ev('ROMAN(v_n)', v_n=spec['lo'])})

    # ------------------------------------------------------------------ termination + out-of-range
    def c_termination(self, spec, rec):
        rnd = self.rng(spec)
        sc = probe.StepCounter()
        sc.start()
        try:
            fixed = [('BASE(v_a,v_b)', 5, 1), ('BASE(v_a,v_b)', -5, 2), ('BASE(v_a,v_b)', 5, 0.5), ('BASE(v_a,v_b)', 5, 0), ('BASE(v_a,v_b)', 5, -2),
                     ('BASE(v_a,v_b)', 5, 37), ('BASE(v_a,v_b)', 5, 100), ('BASE(v_a,v_b)', 5, 1.5), ('BASE(v_a,v_b)', -1, 16), ('BASE(v_a,v_b)', -0.5, 2),
                     ('DEC2HEX(v_a)', HI40, None), ('DEC2HEX(v_a)', LO40 - 1, None), ('DEC2HEX(v_a)', 2 ** 45, None), ('HEX2DEC(v_a)', 'FFFFFFFFFFF', None),
                     ('HEX2DEC(v_a)', '10000000000', None), ('HEX2DEC(v_a)', 'G', None), ('FACT(v_a)', -1, None), ('FACTDOUBLE(v_a)', -1, None),
                     ('QUOTIENT(v_a,v_b)', 5, 0), ('MOD(v_a,v_b)', 5, 0), ('ROMAN(v_a)', 0, None), ('ROMAN(v_a)', 4000, None), ('ROMAN(v_a,v_b)', 5, 5),
                     ('ARABIC(v_a)', 'IIII', None), ('DECIMAL(v_a,v_b)', 'Z', 10)]
            for j in range(spec['n']):
                if j < len(fixed):
                    f, a, b = fixed[j]
                    must_err = True
                else:
                    must_err = False
                    k = rnd.random()
                    if k < 0.35:
                        f = 'BASE(v_a,v_b)'
                        a = rnd.choice([rnd.randint(-100, 5000), rnd.randint(0, HI40), rnd.uniform(-5, 5000)])
                        b = rnd.choice([-2, 0, 1, 1.5, 37, 100, 0.5, -1, rnd.randint(-5, 40), rnd.uniform(-3, 40)])
                        bi = b if isinstance(b, int) else None
                        must_err = (a < 0) or b in (-2, 0, 1, 1.5, 37, 100, 0.5, -1) or (bi is not None and not (2 <= bi <= 36))
                    elif k < 0.5:
                        f, b = 'DEC2HEX(v_a)', None
                        a = rnd.choice([HI40, LO40 - 1, HI40 + rnd.randint(0, 10 ** 6), LO40 - rnd.randint(1, 10 ** 6), rnd.randint(LO40, HI40 - 1), 2 ** 60])
                        must_err = not (LO40 <= a < HI40)
                    elif k < 0.6:
                        f, b = 'HEX2DEC(v_a)', None
                        nd = rnd.randint(1, 14)
                        a = ''.join(rnd.choice('0123456789ABCDEF') for _ in range(nd))
                        must_err = len(a.lstrip('0')) > 10
                    elif k < 0.7:
                        f, b = rnd.choice(['FACT(v_a)', 'FACTDOUBLE(v_a)']), None
                        a = rnd.choice([-1, -0.5 - rnd.random(), -rnd.randint(1, 100), rnd.randint(0, 170)])
                        must_err = a < 0 and not (-1 < a < 0)
                    elif k < 0.8:
                        f = rnd.choice(['QUOTIENT(v_a,v_b)', 'MOD(v_a,v_b)'])
                        a, b = self.number(rnd), rnd.choice([0, 0, 0.0, self.number(rnd)])
                        must_err = b == 0
                    else:
                        f = rnd.choice(['ROMAN(v_a,v_b)', 'ROUND(v_a,v_b)', 'ROUNDUP(v_a,v_b)', 'ROUNDDOWN(v_a,v_b)', 'CEILING(v_a,v_b)', 'FLOOR(v_a,v_b)', 'EVEN(v_a)', 'ODD(v_a)',
                                        'INT(v_a)', 'ARABIC(ROMAN(v_a))', 'DECIMAL(v_a,v_b)', 'COMPLEX(v_a,v_b)'])
                        a, b = rnd.choice([self.number(rnd), rnd.randint(0, 4500)]), rnd.choice([rnd.randint(-6, 6), 0, 4, 5, 2, 36])
                        if f.startswith(('ROUND',)):
                            b = rnd.randint(-6, 6)
                args = {'v_a': a}
                if b is not None:
                    args['v_b'] = b
                self.e.bind(**args)
                budget = probe.budget_for(f, 2)
                r, steps, exceeded = sc.run(lambda: self.e.p.parse(f), budget)
                rec.case()
                rec.nt((f, a, b))
                fn = f.split('(')[0]
                rec.cov('functions_step_counted', fn)
                if exceeded is not None:
                    rec.violation('C17/call-does-not-terminate:%s' % fn, formula=f, a=a, b=b, steps=steps, budget=budget, where=exceeded.where)
                    self.e = hx.Env()      # the aborted parser is discarded
                    continue
                rec.series['max_steps_over_budget'] = max(rec.series.get('max_steps_over_budget', 0), round(steps / budget, 4))
                if must_err and r['error'] is None:
                    rec.violation('C17/out-of-range-argument-yields-a-value:%s' % fn, formula=f, a=a, b=b, record=r)
                rec.sample({'formula': f, 'a': a, 'b': b, 'steps': steps}, k=6)
        finally:
            sc.stop()

    def c_sentinels(self, spec, rec):
        ev = self.ev
        self.expect('C17/BASE-text:radix>10', ev('BASE(255,16)') == 'FF', formula='BASE(255,16)', got=ev('BASE(255,16)'))
        self.expect('C17/ODD:zero', ev('ODD(0)') == 1, formula='ODD(0)', got=ev('ODD(0)'))
        self.expect('C17/EVEN:zero', ev('EVEN(0)') == 0, formula='EVEN(0)', got=ev('EVEN(0)'))
        r = ev('ROUNDUP(300000,-5)')
        self.expect('C17/ROUNDUP:exact-multiple-not-preserved:negative-digits', finite(r) and abs(Fr(r) - 300000) <= Fr(1, 1000), formula='ROUNDUP(300000,-5)', got=r)
        r = ev('ROUNDDOWN(300000,-5)')
        self.expect('C17/ROUNDDOWN:exact-multiple-not-preserved:negative-digits', finite(r) and abs(Fr(r) - 300000) <= Fr(1, 1000), formula='ROUNDDOWN(300000,-5)', got=r)
        self.expect('C17/ROUND:sentinel', ev('ROUND(2.675,1)') in (2.7, 2.6), got=ev('ROUND(2.675,1)'))
        self.expect('C17/MOD', ev('MOD(-7,3)') == 2 and ev('MOD(7,-3)') == -2, got=(ev('MOD(-7,3)'), ev('MOD(7,-3)')))
        self.expect('C17/QUOTIENT', ev('QUOTIENT(-7,2)') == -3, got=ev('QUOTIENT(-7,2)'))
        rec.nt('s1')
        rec.nt('s2')

    def judge(self, merged, tier):
        why = []
        if merged['counts'].get('roman_enumerated', 0) != 3999:
            why.append('ROMAN sweep incomplete: %s' % merged['counts'].get('roman_enumerated', 0))
        if merged['counts'].get('powers_enumerated', 0) < 500:
            why.append('power-of-radix sweep incomplete: %s' % merged['counts'].get('powers_enumerated', 0))
        if len(merged['cover'].get('functions_step_counted', ())) < 15:
            why.append('step counter reached only %s' % sorted(merged['cover'].get('functions_step_counted', ())))
        return why

    def extra(self, merged):
        return {'exhaustive_subspace': 'ROMAN(n,form) for all n in 1..3999 x forms 0..4, and ARABIC(ROMAN(n)); BASE/DECIMAL on every r^k, r^k+-1 < 2^39 for radix 2..36'}
