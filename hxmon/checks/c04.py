"""C04 - precedence, associativity and parentheses determine expression structure.

Boundary recorder + independent exact model: random expression trees are rendered with minimal, full and
redundant parentheses (parentheses placed from the statement's table), evaluated by the real parser, and
compared with an exact rational evaluation of the generating tree (models/rational.py, with a forward
bound on the implementation's floating-point error so that ill-conditioned trees are not judged).
A sys.monitoring probe on the grammar actions records how many operator reductions really ran.
"""
import collections

from ..runner import BaseCheck
from ..models import rational as R
from ..gen import exprs as G
from ..oracle import is_num, show
from .. import env, hx, probe
from fractions import Fraction as Fr


def agrees(ref, rec):
    """does the parse record equal the model value?"""
    if rec['error'] is not None:
        return False
    x = rec['result']
    if ref.kind == 'bool':
        return x is ref.v
    if ref.kind == 'text':
        return isinstance(x, str) and x == ref.v
    if not is_num(x):
        return False
    if isinstance(x, float) and (x != x or x in (float('inf'), float('-inf'))):
        return False
    if ref.kind == 'int':
        return Fr(x) == ref.v
    return abs(Fr(x) - ref.v) <= Fr(1, 10 ** 9) * max(1, abs(ref.v))


class Check(BaseCheck):
    ID = 'C04'
    TITLE = 'Precedence, associativity and parentheses determine expression structure'
    TECHNIQUE = 'boundary recorder on Parser.parse vs exact rational evaluation of the generating tree; sys.monitoring reduction probe'
    RULE = ('case = one rendering (minimal / full / redundant parentheses) of a seeded random expression tree over integer, decimal, a^b and n% '
            'literals, variables, cells, SUM/MAX/MIN/PRODUCT/ABS calls, unary minus, + - * /, comparisons and & chains. '
            'non-trivial = the minimal rendering evaluates differently under at least one of 8 alternative readings (levels swapped, '
            'right-associativity, unary minus loosest ...) as measured by the model; distinct = distinct formula text.')
    ASSUMPTIONS = ('one comparison per parenthesis-free region; & operands are atoms or parenthesised and & never stands directly beside + - * /',
                   'a comparison may be an operand of arithmetic (TRUE/FALSE as 1/0) but never a function argument or an operand of another comparison',
                   'trees whose exact evaluation meets a zero divisor, overflows, or whose forward error bound exceeds 1e-12 relative are discarded (counted)',
                   'grouping is judged by value: band 1e-9 relative for non-integers, exact for integer results')

    def plan(self, tier, seed):
        specs = [{'campaign': 'sentinels'}] + [{'campaign': 'blanks', 'n': 1500 if tier == 'quick' else 15000, 'seed': seed, 'i': i} for i in range(2 if tier == 'quick' else 4)]
        if tier == 'quick':
            for i in range(16):
                specs.append({'campaign': 'trees', 'n': 2500, 'seed': seed, 'i': i, 'maxdepth': [3, 5, 6, 8][i % 4]})
        else:
            for i in range(32):
                specs.append({'campaign': 'trees', 'n': 20000 if i % 4 else 2500, 'seed': seed, 'i': i, 'maxdepth': [40, 5, 8, 12][i % 4]})
        return specs

    def run(self, spec, rec):
        env.load()
        e = hx.Env()
        G.install_refs(e.p)
        # a second parser of the same process binds the same names to other values (and answers the same cells otherwise): the value of a
        # tree is the value under the bindings of the parser that evaluates it
        import hotxlfp
        self.decoy = hotxlfp.Parser()
        for name in G.VARS:
            self.decoy.set_variable(name, 987654321)
        self.decoy.on('callCellValue', lambda cell, setter: setter(-123456789))
        self.decoy.parse('xa+A1')
        trace = probe.ReductionTrace()
        trace.start()
        try:
            if spec['campaign'] == 'sentinels':
                self.sentinels(rec, e, trace)
            elif spec['campaign'] == 'blanks':
                self.blanks(spec, rec, e)
            else:
                self.trees(spec, rec, e, trace)
        finally:
            trace.stop()
        for k, v in trace.totals.items():
            rec.count('reductions.' + k, v)
        if trace.missing:
            rec.count('probe_missing', len(trace.missing))

    def judge_tree(self, rec, e, trace, t, rnd, modes=('min', 'full', 'redundant')):
        try:
            ref = R.ev(t)
        except R.Discard as d:
            rec.count('discarded.' + str(d).split(':')[0])
            return
        except (OverflowError, ZeroDivisionError):
            rec.count('discarded.overflow')
            return
        if not R.well_conditioned(ref):
            rec.count('discarded.ill-conditioned')
            return
        ops = G.operators(t)
        base_items = G.render(t, 'min')
        disc = R.discriminating(G.strip_calls(base_items), ref)
        first = None
        for mode in modes:
            items = base_items if mode == 'min' else G.render(t, mode, rnd)
            f = G.text(items)
            if len(f) > 6000:
                rec.count('discarded.too-long')
                continue
            trace.reset()
            r = e.raw(f)
            rec.case()
            nred = trace.operator_reductions()
            if not agrees(ref, r):
                key = 'C04/%s-rendering-differs-from-tree' % mode
                rec.violation(key + self.mechanism(t, disc), formula=f if len(f) < 500 else f[:500] + '...', record=r, expected=repr(ref), tree_ops=collections.Counter(ops).most_common(6))
            elif first is not None and (r['result'] is not first['result'] and r['result'] != first['result']):
                rec.violation('C04/renderings-disagree', formula=f[:500], record=r, first=first)
            if first is None:
                first = r
            if trace.available and nred != len(ops) and r['error'] is None:
                rec.count('reduction_count_mismatch')       # witness only, never a verdict
            if disc:
                rec.nt(f)
            for d in disc:
                rec.cov('discriminated_alternatives', d)
        rec.cov('depth', min(G.depth(t), 45))
        rec.count('trees_judged')
        rec.count('tree_nodes', G.size(t))
        rec.sample({'formula': G.text(base_items)[:300], 'value': repr(ref), 'discriminates': disc}, k=8)

    @staticmethod
    def mechanism(t, disc):
        """narrow mechanism key: which operator kinds are present"""
        ops = set(G.operators(t))
        tags = []
        if 'neg' in ops:
            tags.append('neg')
        if ops & {'*', '/'}:
            tags.append('muldiv')
        if ops & {'+', '-'}:
            tags.append('addsub')
        if '&' in ops:
            tags.append('amp')
        if ops & set(G.CMPS):
            tags.append('cmp')
        return ':' + '+'.join(tags)

    def trees(self, spec, rec, e, trace):
        rnd = self.rng(spec)
        deep = spec['maxdepth'] > 12
        for _ in range(spec['n']):
            d = rnd.randint(1, spec['maxdepth'])
            g = G.ExprGen(rnd, maxdepth=d, p_leaf=0.12 if deep else 0.28, max_leaves=400,
                          allow_div=rnd.random() < 0.8, ints_only=rnd.random() < 0.2)
            t = g.tree()
            self.judge_tree(rec, e, trace, t, rnd)

    # ---- leaves that are blank: no exact model is consulted, the renderings of one tree are compared with each other
    def blanks(self, spec, rec, e):
        from ..oracle import outcome
        rnd = self.rng(spec)
        e.p.set_variable('v_blank', None)
        e.p.set_function('NIL', lambda *a: None)
        BL = [('var', 'v_blank', None), ('cell', 'ZZ99', None), ('cell', '$zz$98', None), ('var', 'NIL()', None)]

        def sub(t):
            k = t[0]
            if k in ('int', 'dec', 'pow', 'pct', 'var', 'cell'):
                return rnd.choice(BL) if rnd.random() < self_p[0] else t
            if k == 'str':
                return t
            if k == 'call':
                return ('call', t[1], [sub(a) for a in t[2]])
            if k == 'neg':
                return ('neg', sub(t[1]))
            if k in ('bin', 'cmp'):
                return (k, t[1], sub(t[2]), sub(t[3]))
            if k == 'amp':
                return ('amp', [sub(x) for x in t[1]])
            return t
        self_p = [0.3]
        for n in range(spec['n']):
            self_p[0] = rnd.choice([0.15, 0.3, 0.6, 1.0])
            g = G.ExprGen(rnd, maxdepth=rnd.randint(1, 4), p_leaf=0.3, max_leaves=60)
            t = sub(g.tree()) if n % 10 else rnd.choice(BL)
            outs = {}
            for mode in ('min', 'full', 'redundant', 'wrapped', 'wrapped-leaves'):
                items = G.render(t, 'min' if mode.startswith('wrapped') else mode, rnd, p_extra=0.5)
                f = G.text(items)
                if mode == 'wrapped':
                    f = '(' + f + ')'
                elif mode == 'wrapped-leaves':
                    for b in ('v_blank', 'ZZ99', '$zz$98', 'NIL()'):
                        f = f.replace(b, '(' + b + ')')
                outs[mode] = (f, outcome(e.raw(f)))
                rec.case()
            base = outs['min']
            if any(o[1] != base[1] for o in outs.values()):
                rec.violation('C04/renderings-disagree:blank-leaf', renderings={m: o[0][:200] for m, o in outs.items()}, outcomes={m: o[1] for m, o in outs.items()})
            if len({o[0] for o in outs.values()}) > 1:
                rec.nt(base[0])
            rec.count('trees_with_blank_leaves')
            rec.cov('blank_leaf_outcome_kinds', base[1][0] if base[1][0] == 'err' else base[1][1][0])
        rec.sample({'formula': base[0][:200], 'what': 'blank leaves (empty variable, unset cell, function returning nothing): all renderings of one tree give the same outcome, type-strict'})

    def sentinels(self, rec, e, trace):
        I = lambda n: ('int', n)
        ts = [
            ('bin', '-', ('bin', '-', I(10), I(3)), I(2)),                      # left assoc
            ('bin', '-', I(10), ('bin', '-', I(3), I(2))),
            ('bin', '/', ('bin', '/', I(64), I(4)), I(2)),
            ('bin', '+', I(2), ('bin', '*', I(3), I(5))),
            ('bin', '*', ('bin', '+', I(2), I(3)), I(5)),
            ('neg', ('bin', '*', I(2), I(3))),
            ('bin', '*', ('neg', I(2)), I(3)),
            ('bin', '-', I(2), ('neg', I(3))),
            ('neg', ('neg', I(3))),
            ('neg', ('bin', '+', I(2), I(3))),
            ('bin', '+', ('neg', I(2)), I(3)),
            ('cmp', '<', ('bin', '+', I(1), I(2)), ('bin', '*', I(2), I(2))),
            ('cmp', '=', ('bin', '-', I(5), I(2)), ('bin', '+', I(1), I(2))),
            ('bin', '+', ('cmp', '<', I(1), I(2)), I(3)),
            ('bin', '*', I(3), ('cmp', '>=', I(2), I(2))),
            ('neg', ('cmp', '<', I(1), I(2))),
            ('amp', [I(1), I(2), ('str', 'a')]),
            ('amp', [('bin', '+', I(1), I(2)), I(3)]),
            ('cmp', '<', ('amp', [('str', 'a'), ('str', 'b')]), ('amp', [('str', 'a'), ('str', 'c')])),
            ('cmp', '=', ('amp', [I(1), I(2)]), ('str', '12')),
            ('bin', '/', I(1), ('bin', '*', I(2), I(4))),
            ('bin', '*', ('bin', '/', I(1), I(2)), I(4)),
            ('bin', '-', ('bin', '*', I(2), I(3)), ('bin', '/', I(8), I(4))),
            ('call', 'SUM', [('bin', '-', I(2), ('bin', '*', I(3), I(5))), ('neg', I(4))]),
            ('neg', ('pow', 2, 2)),
            ('bin', '*', ('pct', 50), I(4)),
            ('bin', '-', ('var', 'xa', 4), ('bin', '-', ('cell', 'a1', 3), ('var', 'yb', -6))),
        ]
        import random
        rnd = random.Random(1)
        for t in ts:
            self.judge_tree(rec, e, trace, t, rnd)

    def judge(self, merged, tier):
        c = merged['counts']
        why = []
        if c.get('trees_judged', 0) < 100:
            why.append('fewer than 100 trees were judged')
        if len(merged['cover'].get('discriminated_alternatives', ())) < 8:
            why.append('not every alternative reading was discriminated by some case: %s' % sorted(merged['cover'].get('discriminated_alternatives', ())))
        return why
