"""C08 - error values propagate through operators and can be trapped.

Boundary recorder vs a value-based error algebra: typed random trees in which a random non-empty subset of
leaves is an error source (produced by an operator, returned by a function, raised by a function, supplied by the
host, or - in a separate campaign - written as a literal).  The model evaluates numbers exactly, returns the
left-most erroneous operand for every operator, and computes ISERROR/ISERR/ISNA/ERROR.TYPE/IFERROR/IFNA from the
model outcome of their argument.
"""
from fractions import Fraction as Fr

from ..runner import BaseCheck
from ..oracle import CODES8, is_num, close
from .. import env, hx, probe

CMPS = ['<', '>', '=', '<=', '>=', '<>']
LETTERS = 'ABCDEFGH'


class E(object):
    def __init__(self, code):
        self.code = code

    def __repr__(self):
        return 'E(%s)' % self.code


def src(rnd, code, allow_raise=True):
    """(mode, text) of an expression producing error `code`"""
    i = CODES8.index(code)
    opts = [('returned', 'ERRV(%d)' % i), ('host-var', 'ev_' + LETTERS[i].lower()), ('host-cell', 'E%d' % (i + 1))]
    # the error value sits INSIDE what the host hands over: a list variable, a range answered with rows, a cell answered with a list
    opts += [('inside-host-container', 'INDEX(el_%s,2)' % LETTERS[i].lower()), ('inside-host-container', 'INDEX(F%d:G9,1,2)' % (i + 1)), ('inside-host-container', 'INDEX(H%d,2)' % (i + 1))]
    if allow_raise:
        opts += [('raised', 'ERRR(%d)' % i), ('raised-builtin', 'SUM(ERRV(%d))' % i), ('raised-builtin', 'MAX(2,ev_%s)' % LETTERS[i].lower())]
        opts += [('raised-builtin-from-host-container', 'SUM(el_%s)' % LETTERS[i].lower()), ('raised-builtin-from-host-container', 'MAX(F%d:G9)' % (i + 1)), ('raised-builtin-from-host-container', 'SUM(2,H%d)' % (i + 1))]
    if code == '#DIV/0!':
        opts += [('operator', '1/0'), ('operator', '(5/(2-2))')] + ([('raised-builtin', 'SUM(1/0)'), ('raised-builtin', 'MIN(3,1/0)')] if allow_raise else [])
    if code == '#VALUE!':
        opts += [('operator', '("a"+1)'), ('operator', '(2*"x")')]
    if code == '#NUM!':
        opts += [('operator', '(1-DATE(2019,1,1))')]
    if code == '#N/A':
        opts += [('returned', 'NA()')] + ([('raised-builtin', 'MIN(NA())'), ('raised-builtin', 'AVERAGE(1,NA())')] if allow_raise else [])
    if code == '#REF!':
        opts += [('returned', 'INDEX({1,2},5)')]
    return rnd.choice(opts)


class Gen(object):
    def __init__(self, rnd, p_err=0.4, codes_as_text=True):
        self.rnd, self.p_err = rnd, p_err
        self.codes_as_text = codes_as_text        # text that merely spells an error code (not an error value)

    def err(self):
        c = self.rnd.choice(CODES8)
        m, txt = src(self.rnd, c)
        return ('err', c, m, txt)

    def blank(self):
        return ('blank', self.rnd.choice(['NULL', 'Q77', 'v_blank', 'ZZ9']))

    def num(self, d, strict=False):
        """numeric-typed tree; strict: the value can never be a logical (needed under aggregates, whose
        treatment of logicals is not claimed), so pass-through functions get strict arguments too"""
        r = self.rnd
        k = r.random()
        if d <= 0 or k < 0.28:
            if r.random() < self.p_err:
                return self.err()
            return ('n', r.choice([1, 2, 3, 5, 7]))
        if k < 0.36:
            return ('u', self.any_num(d - 1))
        if k < 0.62:
            if not strict and r.random() < 0.12:
                # an array operand (literal, host list or range) meets a possibly erroneous operand
                arr = ('arr', r.choice(['{1,2}', '{3;4;5}', 'v_arr', 'A1:B2', '{1,2;3,4}']))
                other = self.err() if r.random() < 0.7 else self.num(d - 1, True)
                return ('b', r.choice('+-*/'), arr, other) if r.random() < 0.5 else ('b', r.choice('+-*/'), other, arr)
            if r.random() < 0.06:
                # text that is no number meets an erroneous operand: the error is the operand that is an error value, on whichever side it stands
                txt = ('s', r.choice(['abc', 'x y', '', 'TRUE', '1,5', 'n/a']))
                return ('b', r.choice('+-*/'), txt, self.err()) if r.random() < 0.5 else ('b', r.choice('+-*/'), self.err(), txt)
            if r.random() < 0.08:
                # a blank meets a possibly erroneous operand
                other = self.err() if r.random() < 0.8 else self.num(d - 1, True)
                return ('b', r.choice('+-*/'), self.blank(), other) if r.random() < 0.5 else ('b', r.choice('+-*/'), other, self.blank())
            return ('b', r.choice('+-*/'), self.any_num(d - 1), self.any_num(d - 1))
        if k < 0.72:
            arg = (lambda: self.num(d - 1, True)) if strict else (lambda: self.any_num(d - 1))
            return ('trap', r.choice(['IFERROR', 'IFNA']), arg(), arg())
        if k < 0.80:
            return ('trap', 'ERROR.TYPE', self.anything(d - 1))
        if k < 0.88:
            fn = r.choice(['IDF', 'IDF', 'SUM', 'MAX', 'MIN', 'PRODUCT', 'AVERAGE', 'MEDIAN'])
            return ('call', fn, [self.num(d - 1, True) for _ in range(1 if fn == 'IDF' else r.randint(1, 3))])
        return self.num(d - 1, strict)

    def boolean(self, d):
        r = self.rnd
        if r.random() < 0.5:
            return ('cmp', r.choice(CMPS), self.num(d - 1), self.num(d - 1))
        return ('trap', r.choice(['ISERROR', 'ISERR', 'ISNA']), self.anything(d - 1))

    def any_num(self, d):
        return self.boolean(d) if self.rnd.random() < 0.2 and d > 0 else self.num(d)

    def text(self, d):
        r = self.rnd
        ops = []
        for _ in range(r.randint(2, 3)):
            k = r.random()
            if k < 0.35:
                ops.append(('s', r.choice(['a', 'b', '', 'xy', '#N/A', '#DIV/0!', '#NUM!'] if self.codes_as_text else ['a', 'b', '', 'xy'])))
            elif k < 0.6:
                ops.append(self.err())
            elif k < 0.67:
                ops.append(self.blank())
            elif k < 0.75:
                ops.append(('n', r.choice([1, 2, 30])))
            elif k < 0.9 and d > 0:
                ops.append(('trap', r.choice(['IFERROR', 'IFNA']), self.err() if r.random() < 0.7 else ('s', 'q'), ('s', r.choice(['alt', '']))))
            elif d > 0:
                ops.append(self.text(d - 1))
            else:
                ops.append(('s', 'z'))
        return ('amp', ops)

    def anything(self, d):
        k = self.rnd.random()
        if k < 0.06 and self.codes_as_text:
            return ('s', self.rnd.choice(['#N/A', '#DIV/0!', '#VALUE!', '#REF!', '#NAME?', '#NUM!', '#NULL!', '#GETTING_DATA', '#ERROR!', 'N/A', '#n/a']))
        if k < 0.6:
            return self.num(d)
        if k < 0.8 and d > 0:
            return self.boolean(d)
        return self.text(d)

    def tree(self, d):
        return self.anything(d)


def render(t):
    k = t[0]
    if k == 'n':
        return str(t[1])
    if k == 's':
        return '"%s"' % t[1]
    if k == 'err':
        return t[3]
    if k in ('arr', 'blank'):
        return t[1]
    if k == 'u':
        return '-(' + render(t[1]) + ')'
    if k in ('cmp', 'b'):
        return '(' + render(t[2]) + ')' + t[1] + '(' + render(t[3]) + ')'
    if k == 'amp':
        return '&'.join('(' + render(x) + ')' for x in t[1])
    if k == 'trap':
        return '%s(%s)' % (t[1], ','.join(render(x) for x in t[2:]))
    if k == 'call':
        return '%s(%s)' % (t[1], ','.join(render(x) for x in t[2]))
    raise ValueError(k)


class Unclaimed(Exception):
    pass


class Arr(object):
    """opaque model value: some array (only its being an array and not an error is claimed here)"""
    def __repr__(self):
        return 'ARRAY'


ARR = Arr()


class Blank(object):
    """model value: a blank (the NULL name, a variable holding None, a cell nobody answers for)"""
    def __repr__(self):
        return 'BLANK'


BLANK = Blank()


def numv(v):
    if v is ARR:
        raise Unclaimed('array where a number is needed')
    if isinstance(v, bool):
        return Fr(int(v))
    if isinstance(v, Fr):
        return v
    if v is BLANK:
        return Fr(0)
    raise Unclaimed('non-numeric under arithmetic')


def model(t):
    k = t[0]
    if k == 'n':
        return Fr(t[1])
    if k == 's':
        return t[1]
    if k == 'err':
        return E(t[1])
    if k == 'arr':
        return ARR
    if k == 'blank':
        return BLANK
    if k == 'u':
        v = model(t[1])
        return v if isinstance(v, E) else -numv(v)
    if k == 'b':
        a, b = model(t[2]), model(t[3])
        if isinstance(a, E):
            return a
        if isinstance(b, E):
            return b
        if a is ARR and b is ARR:
            raise Unclaimed('array with array (length rules are the subject of C06)')
        if a is ARR or b is ARR:
            return ARR          # element-wise result: an array, not an error (values are C06's subject)
        a, b = numv(a), numv(b)
        if t[1] == '/':
            return E('#DIV/0!') if b == 0 else a / b
        return {'+': a + b, '-': a - b, '*': a * b}[t[1]]
    if k == 'cmp':
        a, b = model(t[2]), model(t[3])
        if isinstance(a, E):
            return a
        if isinstance(b, E):
            return b
        if isinstance(a, bool) or isinstance(b, bool) or a is BLANK or b is BLANK:
            raise Unclaimed('logical or blank operand of comparison (C07)')
        a, b = numv(a), numv(b)
        return {'<': a < b, '>': a > b, '=': a == b, '<=': a <= b, '>=': a >= b, '<>': a != b}[t[1]]
    if k == 'amp':
        out = ''
        vals = [model(x) for x in t[1]]
        for v in vals:
            if isinstance(v, E):
                return v
        for v in vals:
            if isinstance(v, str):
                out += v
            elif v is BLANK:
                pass
            elif isinstance(v, Fr) and v.denominator == 1:
                out += str(v.numerator)
            else:
                raise Unclaimed('& operand neither text nor integer')
        return out
    if k == 'trap':
        fn = t[1]
        v = model(t[2])
        if v is ARR and fn in ('ERROR.TYPE',):
            raise Unclaimed('ERROR.TYPE of an array')
        if fn == 'ISERROR':
            return isinstance(v, E)
        if fn == 'ISERR':
            return isinstance(v, E) and v.code != '#N/A'
        if fn == 'ISNA':
            return isinstance(v, E) and v.code == '#N/A'
        if fn == 'ERROR.TYPE':
            return Fr(CODES8.index(v.code) + 1) if isinstance(v, E) else E('#N/A')
        alt = model(t[3])
        if v is BLANK or alt is BLANK:
            raise Unclaimed('blank through IFERROR/IFNA')
        if fn == 'IFERROR':
            return alt if isinstance(v, E) else v
        if fn == 'IFNA':
            return alt if (isinstance(v, E) and v.code == '#N/A') else v
    if k == 'call':
        vals = [model(x) for x in t[2]]
        if t[1] != 'IDF' and any(v is ARR for v in vals):
            raise Unclaimed('aggregate over an array result (its elements may themselves be errors)')
        for v in vals:
            if isinstance(v, E):
                return v
        if t[1] == 'IDF':
            return vals[0]
        if any(v is BLANK for v in vals):
            raise Unclaimed('blank under an aggregate')
        xs = [numv(v) for v in vals]
        if t[1] == 'SUM':
            return sum(xs)
        if t[1] == 'MAX':
            return max(xs)
        if t[1] == 'MIN':
            return min(xs)
        if t[1] == 'PRODUCT':
            p = Fr(1)
            for x in xs:
                p *= x
            return p
        if t[1] == 'AVERAGE':
            return sum(xs) / len(xs)
        if t[1] == 'MEDIAN':
            s = sorted(xs)
            n = len(s)
            return s[n // 2] if n % 2 else (s[n // 2 - 1] + s[n // 2]) / 2
    raise ValueError(k)


def features(t, acc):
    """mechanism classifier: where an error value met what"""
    k = t[0]

    def is_e(x):
        try:
            return isinstance(model(x), E)
        except Unclaimed:
            return False

    def has_raise(x):
        if x[0] == 'err':
            return x[2].startswith('raised')
        return any(has_raise(c) for c in x[1:] if isinstance(c, tuple)) or any(has_raise(c) for l in x[1:] if isinstance(l, list) for c in l)
    if k == 'u':
        if is_e(t[1]):
            acc.add('error-under-unary-minus')
        features(t[1], acc)
    elif k == 'cmp':
        if is_e(t[2]) or is_e(t[3]):
            acc.add('error-under-comparison')
        features(t[2], acc)
        features(t[3], acc)
    elif k == 'amp':
        if any(is_e(x) for x in t[1]):
            acc.add('error-under-&')
        for x in t[1]:
            features(x, acc)
    elif k == 'b':
        if (t[2][0] == 'arr' or t[3][0] == 'arr') and (is_e(t[2]) or is_e(t[3])):
            acc.add('error-meets-array-operand')
        if is_e(t[2]) and is_e(t[3]):
            acc.add('both-operands-error')
        features(t[2], acc)
        features(t[3], acc)
    elif k == 'trap':
        if any(has_raise(x) for x in t[2:]):
            acc.add('raised-error-under-trapping-function')
        for x in t[2:]:
            features(x, acc)
    elif k == 'call':
        if any(has_raise(x) for x in t[2]):
            acc.add('raised-error-under-function')
        for x in t[2]:
            features(x, acc)
    elif k == 'err' and t[2].startswith('raised'):
        acc.add('raised-error')
    return acc


class Check(BaseCheck):
    ID = 'C08'
    TITLE = 'Error values propagate through operators and can be trapped'
    TECHNIQUE = 'boundary recorder on Parser.parse vs value-based error algebra over typed random trees with error-producing leaves'
    RULE = ('case = one typed random tree (depth <= 6 quick / 12 thorough) over numbers, + - * /, unary minus, comparisons, & chains, '
            'IFERROR/IFNA/ISERROR/ISERR/ISNA/ERROR.TYPE, identity custom function and the six propagating aggregates, in which leaves are replaced by '
            'error sources of the 8 codes (operator-produced, function-returned, function-raised, host-supplied); plus a literal campaign. '
            'non-trivial = the tree contains at least one error source and the model gave a definite expectation; distinct = distinct formula.')
    ASSUMPTIONS = ('which error a non-trapping built-in returns for an erroneous argument is not claimed: sources stand only under operators, trapping '
                   'functions, SUM/PRODUCT/AVERAGE/MIN/MAX/MEDIAN and custom functions',
                   'error literals are not trappable by the statement and are generated in a separate campaign without other error sources',
                   '#ERROR! is not one of the eight codes and is not used as a source',
                   'an error raised inside a call is the value of that call (value-based model)')

    def plan(self, tier, seed):
        specs = [{'campaign': 'sentinels'}]
        if tier == 'quick':
            for i in range(16):
                specs.append({'campaign': 'trees', 'n': 9000, 'seed': seed, 'i': i, 'maxdepth': 6 if i % 4 else 9})
            specs.append({'campaign': 'literals', 'n': 8000, 'seed': seed, 'i': 0})
            specs.append({'campaign': 'hostbuilt'})
        else:
            for i in range(32):
                specs.append({'campaign': 'trees', 'n': 110000, 'seed': seed, 'i': i, 'maxdepth': 12 if i % 2 else 6})
            for i in range(4):
                specs.append({'campaign': 'literals', 'n': 30000, 'seed': seed, 'i': i})
            specs.append({'campaign': 'hostbuilt'})
        return specs

    def run(self, spec, rec):
        env.load()
        e = self.e = hx.Env()
        objs = hx.error_objects()
        self.objs = objs
        e.p.set_function('ERRV', lambda k: objs[CODES8[int(k)]])

        def errr(k):
            raise objs[CODES8[int(k)]]
        e.p.set_function('ERRR', errr)
        e.p.set_function('IDF', lambda x, *rest: x)
        e.p.set_function('SELFEVAL', lambda x: e.p.parse('1+%d' % int(x))['result'])
        for i, c in enumerate(CODES8):
            e.p.set_variable('ev_' + LETTERS[i].lower(), objs[c])
            e.p.set_variable('el_' + LETTERS[i].lower(), [4, objs[c], 6])

        def on_cell(cell, setter):
            if cell.label.startswith('E') and cell.label[1:].isdigit() and 1 <= int(cell.label[1:]) <= 8:
                setter(objs[CODES8[int(cell.label[1:]) - 1]])
            if cell.label.startswith('H') and cell.label[1:].isdigit() and 1 <= int(cell.label[1:]) <= 8:
                setter([4, objs[CODES8[int(cell.label[1:]) - 1]]])
        e.p.on('callCellValue', on_cell)
        e.p.set_variable('v_arr', [10, 20])
        e.p.set_variable('v_blank', None)

        def on_range(a, b, s):
            if a.label.startswith('F') and a.label[1:].isdigit() and 1 <= int(a.label[1:]) <= 8 and b.label == 'G9':
                s([[1, objs[CODES8[int(a.label[1:]) - 1]]], [3, 4]])
            else:
                s([[1, 2], [3, 4]])
        e.p.on('callRangeValue', on_range)
        getattr(self, 'c_' + spec['campaign'])(spec, rec)

    def agree(self, m, r):
        if isinstance(m, E):
            return r['error'] == m.code and r['result'] is None
        if r['error'] is not None:
            return False
        g = r['result']
        if m is BLANK:
            return g is None
        if m is ARR:
            return isinstance(g, list)
        if isinstance(m, bool):
            return g is m
        if isinstance(m, str):
            return isinstance(g, str) and g == m
        return is_num(g) and close(g, m)

    def judge_tree(self, rec, t):
        f = render(t)
        try:
            m = model(t)
        except Unclaimed as u:
            rec.count('unclaimed.' + str(u).split('(')[0].strip())
            return
        r = self.e.raw(f)
        rec.case()
        fs = features(t, set())
        if not self.agree(m, r):
            key = '+'.join(sorted(fs - {'raised-error'})) or ('raised-error' if 'raised-error' in fs else 'plain')
            rec.violation('C08/' + key, formula=f, record=r, expected=repr(m))
        # ISERROR = ISERR or ISNA on the value of this very expression, whatever it is (observed results only)
        if self.rnd_id.random() < 0.25 and len(f) < 400:
            trio = [self.e.raw('%s(%s)' % (fn, f)) for fn in ('ISERROR', 'ISERR', 'ISNA')]
            rec.case()
            if all(x['error'] is None and isinstance(x['result'], bool) for x in trio):
                if trio[0]['result'] != (trio[1]['result'] or trio[2]['result']):
                    rec.violation('C08/ISERROR-differs-from-ISERR-or-ISNA', formula=f, iserror=trio[0], iserr=trio[1], isna=trio[2])
                if isinstance(m, E) != trio[0]['result'] and not isinstance(m, Arr):
                    rec.violation('C08/ISERROR-disagrees-with-the-error-algebra', formula=f, iserror=trio[0], expected=repr(m))
            rec.count('identity_checks')
        if 'err' in repr(t):
            rec.nt(f)
        for x in fs:
            rec.cov('features', x)
        self.cover(rec, t)
        rec.sample({'formula': f, 'expected': repr(m) if not isinstance(m, Fr) else float(m)}, k=8)

    def c_hostbuilt(self, spec, rec):
        """error objects the host builds itself (its own XLError instance, returned or raised by a custom function, or held by a variable or
        cell) instead of the library's shared ones.  Which code each predicate attributes to such an object is not claimed; what is claimed
        are the relations: it IS an error (ISERROR, IFERROR), and ISERROR = ISERR or ISNA on it, in every position."""
        XL = hx.errors().XLError
        p = self.e.p
        for i, c in enumerate(CODES8):
            p.set_function('OWNV', lambda k: XL(CODES8[int(k)]))

            def ownr(k):
                raise XL(CODES8[int(k)])
            p.set_function('OWNR', ownr)
            p.set_variable('ow_x', XL(c))
            for wrap in ('%s', '-%s', '%s+1', '1&%s', '%s=1', 'SUM(1,%s)', 'IDF(%s)', 'IFERROR(%s,%s)', '{1,2}+%s', 'MAX(%s,2)', 'IF(TRUE,%s,0)'):
                for srcx in ('OWNV(%d)' % i, 'OWNR(%d)' % i, 'ow_x'):
                    x = wrap.replace('%s', srcx)
                    trio = [self.e.raw('%s(%s)' % (fn, x)) for fn in ('ISERROR', 'ISERR', 'ISNA')]
                    rec.case()
                    rec.nt(('hostbuilt', c, x))
                    if wrap.startswith('{'):
                        continue        # element-wise: the predicates see an array
                    if not all(t['error'] is None and isinstance(t['result'], bool) for t in trio):
                        rec.violation('C08/host-built-error-object:predicate-does-not-answer', formula=x, code=c, iserror=trio[0], iserr=trio[1], isna=trio[2])
                        continue
                    if trio[0]['result'] != (trio[1]['result'] or trio[2]['result']):
                        rec.violation('C08/ISERROR-differs-from-ISERR-or-ISNA:host-built-error-object', formula=x, code=c, iserror=trio[0], iserr=trio[1], isna=trio[2])
                    if not trio[0]['result']:
                        rec.violation('C08/host-built-error-object:not-seen-as-an-error', formula=x, code=c, iserror=trio[0])
                    r = self.e.raw('IFERROR(%s,"trapped")' % x)
                    if r != {'result': 'trapped', 'error': None}:
                        rec.violation('C08/host-built-error-object:not-trapped-by-IFERROR', formula=x, code=c, record=r)
        # values that are NOT error values, however unusual (non-finite numbers, text spelling a code, blanks, empty text): the observers
        # agree with each other and with what reaches the top - ISERROR = ISERR or ISNA, and IFERROR(x,y) is y exactly when x is an error
        p.set_function('GIVEV', lambda *a: p.variables.get('nv_x'))
        for v in (float('inf'), float('-inf'), float('nan'), '#N/A', '#DIV/0!', None, '', 0, False, 1e308, [1, 2]):
            p.set_variable('nv_x', v)
            for x in ('nv_x', 'GIVEV()', '(nv_x)', 'IF(TRUE,nv_x,1)') + (('nv_x*10-nv_x*10', '10^308*10.5', '0*(10^308*10.5)') if v == 1e308 else ()):
                top = self.e.raw(x)
                trio = [self.e.raw('%s(%s)' % (fn, x)) for fn in ('ISERROR', 'ISERR', 'ISNA')]
                trap = self.e.raw('IFERROR(%s,"trapped")' % x)
                rec.case()
                rec.nt(('not-an-error', repr(v), x))
                if isinstance(v, list) or not all(t['error'] is None and isinstance(t['result'], bool) for t in trio):
                    continue
                is_error_at_top = top['error'] is not None
                if trio[0]['result'] != (trio[1]['result'] or trio[2]['result']) or trio[0]['result'] != is_error_at_top or (trap == {'result': 'trapped', 'error': None}) != is_error_at_top:
                    rec.violation('C08/observers-disagree-about-a-value-that-is-no-error', formula=x, value=v, at_the_top=top, iserror=trio[0]['result'], iserr=trio[1]['result'], isna=trio[2]['result'], iferror=trap)
        rec.sample({'formula': 'ISERROR(OWNV(3))=OR(ISERR(OWNV(3)),ISNA(OWNV(3)))'})

    def cover(self, rec, t):
        k = t[0]
        if k == 'err':
            rec.cov('source_modes', t[2])
            rec.cov('codes', t[1])
        elif k == 'trap':
            rec.cov('trapping_functions', t[1])
        for c in t[1:]:
            if isinstance(c, tuple):
                self.cover(rec, c)
            elif isinstance(c, list):
                for x in c:
                    if isinstance(x, tuple):
                        self.cover(rec, x)

    def c_trees(self, spec, rec):
        rnd = self.rng(spec)
        self.rnd_id = self.rng(spec, 'identity')
        g = Gen(rnd)
        for _ in range(spec['n']):
            self.judge_tree(rec, g.tree(rnd.randint(1, spec['maxdepth'])))

    def c_literals(self, spec, rec):
        """an error literal anywhere makes the whole formula report that code (no other error source present)"""
        rnd = self.rng(spec)
        g = Gen(rnd, p_err=0.0, codes_as_text=False)
        for _ in range(spec['n']):
            t = g.tree(rnd.randint(0, 4))
            code = rnd.choice(CODES8)
            f = render(t)
            # splice the literal in place of one numeric leaf, or wrap
            k = rnd.random()
            if k < 0.3:
                f2 = '%s+(%s)' % (code, f) if rnd.random() < 0.5 else '(%s)+%s' % (f, code)
            elif k < 0.5:
                f2 = rnd.choice(['IFERROR(%s,1)', 'ISERROR(%s)', 'IFNA(%s,2)', 'SUM(1,%s)', '-%s', '%s=1', '%s&"a"', 'IDF(%s)', '{1,%s}', '(%s)',
                                 # ... also when something later in the formula evaluates another formula on this very parser
                                 'IFERROR(%s,1)+SELFEVAL(2)', 'ISERROR(%s)&SELFEVAL(1)', 'IF(TRUE,7,%s)+SELFEVAL(3)', 'SUM(SELFEVAL(1),IFERROR(%s,1),SELFEVAL(2))', 'ERROR.TYPE(%s)*SELFEVAL(1)',
                                 'IFNA(%s,2)+A1+SELFEVAL(1)', 'SELFEVAL(1)+IFERROR(%s,1)']) % code
            else:
                import re
                nums = list(re.finditer(r'(?<![A-Za-z0-9."$])\d+(?![A-Za-z0-9."(])', f))
                if not nums:
                    f2 = code
                else:
                    mt = rnd.choice(nums)
                    f2 = f[:mt.start()] + code + f[mt.end():]
            try:
                m = model(t)
            except Unclaimed:
                continue
            if isinstance(m, E):
                continue          # e.g. a division by zero in the carrier: two error sources, order not claimed
            r = self.e.raw(f2)
            rec.case()
            if r['error'] != code or r['result'] is not None:
                rec.violation('C08/error-literal:' + code, formula=f2, record=r, expected=code)
            rec.nt(f2)
            rec.cov('literal_codes', code)
            rec.sample({'formula': f2, 'expected': code}, k=6)

    def c_sentinels(self, spec, rec):
        import random
        self.rnd_id = random.Random(0)
        self.rnd_id.random = lambda: 0.0
        N = lambda n: ('n', n)
        div0 = ('err', '#DIV/0!', 'operator', '1/0')
        na = ('err', '#N/A', 'returned', 'NA()')
        rs = ('err', '#DIV/0!', 'raised-builtin', 'SUM(1/0)')
        rr = ('err', '#N/A', 'raised', 'ERRR(6)')
        ts = [('cmp', '=', div0, N(1)), ('cmp', '<', N(1), div0), ('amp', [div0, ('s', 'a')]), ('amp', [('s', 'a'), na]), ('u', div0), ('u', na),
              ('trap', 'IFERROR', rs, N(0)), ('trap', 'ISERROR', rs), ('trap', 'ISNA', rr), ('trap', 'IFNA', rr, N(9)), ('trap', 'ERROR.TYPE', rs),
              ('b', '+', div0, na), ('b', '+', na, div0), ('b', '/', ('err', '#REF!', 'host-var', 'ev_d'), ('trap', 'IFNA', ('b', '*', N(3), rr), N(77))),
              ('trap', 'IFERROR', ('call', 'IDF', [rs]), N(4)), ('call', 'SUM', [N(1), rr]), ('b', '+', rr, N(1)), ('trap', 'ISERR', na), ('trap', 'ISERR', div0),
              ('trap', 'IFERROR', N(1), div0), ('trap', 'IFERROR', div0, na), ('trap', 'ERROR.TYPE', N(1))]
        ts += [('trap', 'ISNA', ('s', '#N/A')), ('trap', 'ISERR', ('s', '#DIV/0!')), ('trap', 'ISERROR', ('s', '#REF!')), ('trap', 'IFNA', ('s', '#N/A'), N(4)),
               ('trap', 'IFERROR', ('s', '#VALUE!'), N(4)), ('trap', 'ERROR.TYPE', ('s', '#NUM!')), ('trap', 'ISNA', ('amp', [('s', '#N'), ('s', '/A')]))]
        arr = ('arr', '{1,2}')
        ts += [('b', '+', arr, na), ('b', '-', na, arr), ('trap', 'ISERROR', ('b', '*', arr, div0)), ('trap', 'IFERROR', ('b', '/', ('arr', 'A1:B2'), rr), N(5)),
               ('trap', 'ISNA', ('b', '+', ('arr', 'v_arr'), na)), ('b', '+', arr, N(1)), ('trap', 'ISERROR', ('b', '+', arr, N(1)))]
        for c in CODES8:
            i = CODES8.index(c)
            ts.append(('trap', 'ERROR.TYPE', ('err', c, 'returned', 'ERRV(%d)' % i)))
            ts.append(('b', '*', N(2), ('err', c, 'host-cell', 'E%d' % (i + 1))))
        for t in ts:
            self.judge_tree(rec, t)
        for code in CODES8:
            for f in (code, '1+' + code, 'IFERROR(%s,1)' % code, '-' + code, code + '&"a"', code + '=' + code, code + '/0', code + '/A1', code + '/2', code + '*2', '2/' + code,
                      'SUM(' + code + '/0,1)', code + '+' + 'Z9'):
                r = self.e.raw(f)
                rec.case()
                if r['error'] != code or r['result'] is not None:
                    rec.violation('C08/error-literal:' + code, formula=f, record=r, expected=code)
                rec.nt(f)

    def judge(self, merged, tier):
        why = []
        cov = merged['cover']
        if len(cov.get('codes', ())) < 8:
            why.append('not all 8 codes were used as sources')
        if len(cov.get('trapping_functions', ())) < 6:
            why.append('not all trapping functions were exercised')
        need = {'error-under-unary-minus', 'error-under-comparison', 'error-under-&', 'raised-error-under-trapping-function', 'both-operands-error', 'error-meets-array-operand'}
        if not need <= set(cov.get('features', ())):
            why.append('feature classes missing: %s' % sorted(need - set(cov.get('features', ()))))
        return why
