"""C19 - cell labels and row/column indices correspond one-to-one.

Deciding monitors: the post-condition contracts on the real hotxlfp.helper.cell functions (contracts.py),
evaluated on an exhaustive sweep of all column labels of 1-4 letters, on rows, on composed labels with
all $ patterns and letter cases, on non-label strings, and on the labels that flow through the formula
parser (cell/range events).  The check also asserts the round trips directly, so a contract that was
bypassed by a re-binding cannot hide a break.
"""
import random
import string

from ..runner import BaseCheck
from ..models import cells as m
from .. import env, contracts

NCOLS = 26 + 26 ** 2 + 26 ** 3 + 26 ** 4   # 475254


class Label(str):
    """a string that is not exactly `str` (as numpy.str_, enum members with a str mixin, or a host's own label type are)"""
    __slots__ = ()


class Check(BaseCheck):
    ID = 'C19'
    TITLE = 'Cell labels and row/column indices correspond one-to-one'
    TECHNIQUE = 'runtime contracts (icontract) on helper.cell + exhaustive/sampled drive against a bijective base-26 model'
    RULE = ('cases = calls of the helper.cell functions. Column indices 0..475253 are enumerated exhaustively (label<->index '
            'both ways, upper and lower case); rows, composed labels ($ patterns x case) and non-label strings are generated '
            'from the seed. A case is non-trivial when its post-condition was fully evaluated (input inside the claimed domain); '
            'distinct = distinct (function, input).')
    ASSUMPTIONS = ('labels whose row is 0 or has leading zeros are neither labels nor non-labels for this statement: they may decompose to nothing, or to the parts that were written',
                   'non-string arguments are outside the quantifier',
                   'the model computes bijective base-26 itself (hxmon/models/cells.py)')

    NO_AMBIENT = ('cols',)

    def plan(self, tier, seed):
        specs = [{'campaign': 'sentinels'}]
        nsh = 16
        step = (NCOLS + nsh - 1) // nsh
        for i in range(nsh):
            specs.append({'campaign': 'cols', 'lo': i * step, 'hi': min(NCOLS, (i + 1) * step)})
        # the same under an interpreter whose int <-> text limit the host has lifted (0) or lowered (640)
        for lim in (0, 640):
            specs.append({'campaign': 'rows', 'lo': 0, 'hi': 3000, 'seed': seed, 'extra': 1000, 'int_max_str_digits': lim})
            specs.append({'campaign': 'labels', 'n': 3000, 'seed': seed, 'i': 'lim%d' % lim, 'int_max_str_digits': lim})
            specs.append({'campaign': 'parser', 'n': 800, 'seed': seed, 'i': 'lim%d' % lim, 'int_max_str_digits': lim})
        if tier == 'quick':
            specs.append({'campaign': 'rows', 'lo': 0, 'hi': 20000, 'seed': seed, 'extra': 20000})
            for i in range(4):
                specs.append({'campaign': 'labels', 'n': 15000, 'seed': seed, 'i': i})
                specs.append({'campaign': 'nonlabels', 'n': 15000, 'seed': seed, 'i': i})
                specs.append({'campaign': 'zero_rows', 'n': 1500, 'seed': seed, 'i': i})
                specs.append({'campaign': 'recompose', 'n': 1500, 'seed': seed, 'i': i})
            specs.append({'campaign': 'parser', 'n': 4000, 'seed': seed, 'i': 0})
        else:
            rstep = 1048576 // 16
            for i in range(16):
                specs.append({'campaign': 'rows', 'lo': i * rstep, 'hi': (i + 1) * rstep, 'seed': seed, 'extra': 20000})
            for i in range(16):
                specs.append({'campaign': 'labels', 'n': 200000, 'seed': seed, 'i': i})
                specs.append({'campaign': 'nonlabels', 'n': 200000, 'seed': seed, 'i': i})
                specs.append({'campaign': 'zero_rows', 'n': 20000, 'seed': seed, 'i': i})
                specs.append({'campaign': 'recompose', 'n': 20000, 'seed': seed, 'i': i})
                specs.append({'campaign': 'parser', 'n': 30000, 'seed': seed, 'i': i})
        specs.append({'campaign': 'confusables'})
        return specs

    # ------------------------------------------------------------------
    def run(self, spec, rec):
        env.load()
        from hotxlfp.helper import cell as hc
        from ..oracle import Guarded
        getattr(self, 'c_' + spec['campaign'])(spec, rec, Guarded(hc, rec, 'C19'))

    def c_sentinels(self, spec, rec, hc):
        # pinned inputs, one per mechanism ever seen (kept for ever: a fixed defect that returns is reported again)
        for s in ['A1\n', '$B$7\n', 'A1\n\n', ' A1', 'A1 ', 'A$', '$1', 'A-1', '', 'A', '1', '$$A1', 'A$$1', 'A1$', '١A1',
                  'A١', 'Ä1', 'A1:B2', 'a1', '$a$1', 'xfd1048576', 'ZZZZ99999999999999999999']:
            rec.case()
            rec.nt(('extract', s))
            got = hc.extract_label(s)
            why = contracts.extract_problem(s, got)
            if why:
                rec.violation('C19/extract_label:' + why + (':trailing-newline' if s.endswith('\n') else ''), label=s, got=got)
        rec.sample({'sentinel_labels': ['A1\\n', 'A$', '$$A1', 'xfd1048576']})

    def c_cols(self, spec, rec, hc):
        prev = None
        for i in range(spec['lo'], spec['hi']):
            lab = hc.column_index_to_label(i)
            exp = m.col_label(i)
            rec.case(3)
            if lab != exp:
                rec.violation('C19/column_index_to_label', index=i, got=lab, expected=exp)
            back = hc.column_label_to_index(exp if i % 7 else Label(exp))
            if back != i:
                rec.violation('C19/column_label_to_index', label=exp, got=back, expected=i)
            lo = hc.column_label_to_index(exp.lower())
            if lo != i:
                rec.violation('C19/column_label_to_index:lower-case', label=exp.lower(), got=lo, expected=i)
            if prev is not None and not (len(prev) < len(lab) or (len(prev) == len(lab) and prev < lab)):
                rec.violation('C19/order-not-bijective-base26', index=i, label=lab, previous=prev)
            prev = lab
            rec.nt(('col', i))
        rec.count('columns_enumerated', spec['hi'] - spec['lo'])
        rec.sample({'column_index': spec['lo'], 'label': m.col_label(spec['lo'])})

    def c_rows(self, spec, rec, hc):
        rnd = self.rng(spec)
        rows = list(range(spec['lo'], spec['hi']))
        rows += [rnd.choice([10 ** 6, 1048575, 1048576, 10 ** 9, 10 ** 20, rnd.randrange(10 ** 7), rnd.randrange(10 ** 30)]) for _ in range(spec['extra'])]
        # 'and beyond': up to the longest row number the interpreter still reads (sys.get_int_max_str_digits(), which a host may have
        # lowered, or lifted altogether) - one, two and three digits inside that edge
        import sys
        lim = sys.get_int_max_str_digits() if hasattr(sys, 'get_int_max_str_digits') else 0
        for d in ([lim - 2, lim - 1, lim] if lim else [4300, 4301, 6000]):
            rows.append(int('1' + '0' * (d - 1)) - 1 + rnd.choice([0, 0, 1, 7]) * (d > 4))
            rec.cov('row_number_digits_at_the_interpreter_limit', (lim, d))
        for r in rows:
            rec.case(2)
            lab = hc.row_index_to_label(r)
            if lab != str(r + 1):
                rec.violation('C19/row_index_to_label', row=r, got=lab)
            back = hc.row_label_to_index(str(r + 1))
            if back != r:
                rec.violation('C19/row_label_to_index', label=str(r + 1), got=back, expected=r)
            rec.nt(('row', r))
        # what is not a row label has no row: never a valid (non-negative) index, and no label for a negative index
        for bad in ['', 'A', '1A', 'x1', '-', '1.5', 'one', '0', '-3', ' ', '$7', '٣x']:
            rec.case()
            try:
                got = hc.row_label_to_index(bad)
            except Exception as e:
                got = -1
                rec.count('row_label_to_index.raised.' + type(e).__name__)
            if not (isinstance(got, int) and got < 0):
                rec.violation('C19/row_label_to_index:non-label-yields-a-row', label=bad, got=got)
        for neg in (-1, -2, -10 ** 6):
            rec.case()
            lab = hc.row_index_to_label(neg)
            if lab not in ('', None):
                rec.violation('C19/row_index_to_label:negative-index-yields-a-label', row=neg, got=lab)
        rec.sample({'row_index': rows[-1], 'label': str(rows[-1] + 1)})

    @staticmethod
    def _small_label(rnd):
        ci, ri, ca, ra = rnd.randrange(6), rnd.randrange(6), rnd.random() < 0.3, rnd.random() < 0.3
        col = m.col_label(ci)
        col = col.lower() if rnd.random() < 0.3 else col
        return ('$' if ca else '') + col + ('$' if ra else '') + str(ri + 1), (ca, ci, ra, ri)

    @staticmethod
    def _rand_label(rnd):
        k = rnd.random()
        if k < 0.3:
            ci = rnd.randrange(0, 16384)              # A..XFD
        elif k < 0.8:
            ci = rnd.randrange(0, NCOLS)
        else:
            ci = rnd.randrange(0, 26 ** 7)
        ri = rnd.choice([0, 8, 9, 98, 99, 1048575, rnd.randrange(0, 1048576), rnd.randrange(0, 10 ** 12)])
        if rnd.random() < 0.25:         # small correlated coordinates: every (row, column) pair below 40 is met
            ci, ri = rnd.randrange(0, 40), rnd.randrange(0, 40)
        ca, ra = rnd.random() < 0.5, rnd.random() < 0.5
        col = ''.join(c.lower() if rnd.random() < 0.4 else c for c in m.col_label(ci))
        return ('$' if ca else '') + col + ('$' if ra else '') + str(ri + 1), (ca, ci, ra, ri)

    def c_labels(self, spec, rec, hc):
        rnd = self.rng(spec)
        for _ in range(spec['n']):
            lab, (ca, ci, ra, ri) = self._rand_label(rnd)
            rec.case()
            if rnd.random() < 0.15:
                lab = Label(lab)
                rec.count('labels_given_as_str_subclass')
            got = hc.extract_label(lab)
            why = contracts.extract_problem(lab, got)
            if why:
                rec.violation('C19/extract_label:' + why, label=lab, got=got)
                continue
            re = hc.to_label(*got)
            if re != lab.upper():
                rec.violation('C19/to_label:recomposition', label=lab, got=re)
            rec.nt(('label', lab))
            rec.cov('dollar_pattern', (ca, ra))
            rec.cov('col_letters', len(m.col_label(ci)))
            rec.sample({'label': lab, 'decomposed': repr(got)})

    def c_nonlabels(self, spec, rec, hc):
        rnd = self.rng(spec)
        alphabet = string.ascii_letters + string.digits + '$$$ :.-+_\n\t' + 'éÄ١٢一'
        fixed = ['', 'A', '1', 'A1\n', 'A1 ', ' A1', 'A 1', 'A$', '$', '$$A1', 'A$$1', '$A$', 'A1$', '1A', 'A1B', 'A-1', 'A+1',
                 'A1:B2', 'Ä1', 'A١', '١', 'A1\r', 'A1\x00', '$A$1$', 'A.1', 'A1.0']
        for j in range(spec['n']):
            if j < len(fixed):
                s = fixed[j]
            else:
                k = rnd.random()
                if k < 0.4:
                    s = ''.join(rnd.choice(alphabet) for _ in range(rnd.randint(0, 8)))
                elif k < 0.75:   # a well-formed label with one defect injected
                    s, _ = self._rand_label(rnd)
                    pos = rnd.randrange(len(s) + 1)
                    s = s[:pos] + rnd.choice(['$', ' ', '\n', '-', '.', ':', 'é', '١', '_', '$$'] + list(string.punctuation)) + s[pos:]
                else:            # a well-formed label inside what other notations put around one: still not a label
                    s, _ = self._rand_label(rnd)
                    t, _ = self._rand_label(rnd)
                    s = rnd.choice(['Sheet1!%s', 'S!%s', 'sheet_2.x!%s', "'Sheet 1'!%s", '[Book1]Sheet1!%s', '!%s', '=%s', '+%s', '-%s', '@%s', '#%s', '(%s)', '"%s"', "'%s'", '%s!', '%s#', '%s%%',
                                    '%s:' + t, '%s,' + t, '%s ' + t, '%s;' + t, '%s' + t, '%s.' + t, 'R%sC1', '%s()', 'x!%s', '_%s', '%s_', 'a.b!%s', 'A1!%s', '%s!' + t, '{%s}', '&%s', '%s&']) % s
            if m.LABEL_SHAPED.match(s) and s.isascii():
                rec.count('generated_string_is_label_shaped_skipped')
                continue
            rec.case()
            got = hc.extract_label(s)
            if got != []:
                key = 'C19/extract_label:non-label-decomposes' + (':trailing-newline' if s.endswith('\n') and m.LABEL_SHAPED.match(s[:-1]) else '')
                rec.violation(key, label=s, got=got)
            elif isinstance(got, list) and j % 5 == 0:
                # "nothing" is the caller's own nothing: a caller that goes on to use its (empty) result must not change what the next
                # non-label decomposes to
                got.append(('mine', s))
            rec.nt(('nonlabel', s))
            rec.sample({'non_label': s})

    def c_recompose(self, spec, rec, hc):
        """to_label is a function of the indices and the absolute markers: parts whose label text is stale, in another case, missing or plain
        wrong (a host that shifted a reference by editing the index) still recompose to the label of the indices"""
        rnd = self.rng(spec)
        PL = getattr(hc._mod, 'ParsedLabel', None)
        if PL is None:
            rec.inconcl('ParsedLabel is gone: recomposition from edited parts cannot be exercised')
            return
        for _ in range(spec['n']):
            ci = rnd.choice([0, 25, 26, 701, 702, 16383, 18277, 18278, rnd.randrange(0, 26 ** 4), rnd.randrange(0, 200)])
            ri = rnd.choice([0, 8, 9, 98, 99, 1048575, rnd.randrange(0, 10 ** 6), rnd.randrange(0, 10 ** 12)])
            ca, ra = rnd.random() < 0.5, rnd.random() < 0.5
            stale_col = rnd.choice([m.col_label(ci), m.col_label(ci).lower(), m.col_label(max(0, ci - 1)), m.col_label(ci + 1), 'A', '', None, 'zz', m.col_label(rnd.randrange(0, 20000))])
            stale_row = rnd.choice([str(ri + 1), str(ri), str(ri + 2), '1', '', None, '007', str(rnd.randrange(1, 10 ** 6))])
            row, col = PL(index=ri, label=stale_row, is_absolute=ra), PL(index=ci, label=stale_col, is_absolute=ca)
            got = hc.to_label(row, col)
            exp = ('$' if ca else '') + m.col_label(ci) + ('$' if ra else '') + str(ri + 1)
            rec.case()
            if got != exp:
                rec.violation('C19/to_label:does-not-follow-the-indices', row_index=ri, column_index=ci, row_text=stale_row, column_text=stale_col, got=got, expected=exp)
            rec.nt(('recompose', ri, ci, ra, ca, stale_col, stale_row))

    def c_zero_rows(self, spec, rec, hc):
        """letters then digits that are not a *positive row number without leading zeros* (A0, B007, $C$00): the statement calls them neither
        labels nor non-labels, so they may decompose to nothing - but if they decompose, the parts are still the parts that were written"""
        rnd = self.rng(spec)
        for _ in range(spec['n']):
            col = ''.join(rnd.choice(string.ascii_letters) for _ in range(rnd.randint(1, 4)))
            row = rnd.choice(['0', '00', '0%d' % rnd.randint(1, 99), '00%d' % rnd.randint(1, 999), '0' * rnd.randint(1, 5) + str(rnd.randint(0, 10 ** 6))])
            ca, ra = rnd.choice(['', '$']), rnd.choice(['', '$'])
            s = ca + col + ra + row
            rec.case()
            got = hc.extract_label(s)
            if got == []:
                rec.count('zero_or_padded_row.decomposes_to_nothing')
                continue
            rec.count('zero_or_padded_row.decomposes')
            ok = (len(got) == 2 and got[1].index == m.col_index(col) and bool(got[1].is_absolute) == (ca == '$') and bool(got[0].is_absolute) == (ra == '$')
                  and got[0].index in (int(row) - 1, -1))
            if not ok:
                rec.violation('C19/extract_label:padded-or-zero-row-decomposes-to-other-parts', label=s, got=got)
            rec.nt(('zero-row', s))

    def c_confusables(self, spec, rec, hc):
        """every non-ASCII character whose upper/lower/casefold/NFKC form is an ASCII letter or digit, put where a letter or a
        digit of a label would stand: such strings are not cell labels and must decompose to nothing"""
        import unicodedata
        letters, digits = [], []
        for cp in range(128, 0x110000):
            if 0xD800 <= cp <= 0xDFFF:
                continue
            c = chr(cp)
            forms = (c.upper(), c.lower(), c.casefold(), unicodedata.normalize('NFKC', c), unicodedata.normalize('NFKD', c))
            if any(f and all(ch.isascii() and ch.isalpha() for ch in f) for f in forms):
                letters.append(c)
            if c.isdigit() or c.isdecimal() or c.isnumeric() or any(f and all(ch.isascii() and ch.isdigit() for ch in f) for f in forms):
                digits.append(c)
        rec.count('confusable_letters', len(letters))
        rec.count('confusable_digits', len(digits))
        for c in letters:
            for s in (c + '1', 'A' + c + '1', '$' + c + '$7', c + c + '12', c.upper() + '1', c.lower() + '1'):
                if m.LABEL_SHAPED.match(s) and s.isascii():
                    continue
                rec.case()
                got = hc.extract_label(s)
                if got != []:
                    rec.violation('C19/extract_label:non-label-decomposes:non-ascii-letter', label=s, codepoint=hex(ord(c)), got=got)
                rec.nt(('confl', s))
        for c in digits:
            for s in ('A' + c, 'A1' + c, 'A' + c + '1', '$B$' + c):
                rec.case()
                got = hc.extract_label(s)
                if got != []:
                    rec.violation('C19/extract_label:non-label-decomposes:non-ascii-digit', label=s, codepoint=hex(ord(c)), got=got)
                rec.nt(('confd', s))
        rec.sample({'non_label': u'\u00df1', 'why': 'upper-cases to SS1'})

    def c_parser(self, spec, rec, hc):
        """Labels as they flow through formula evaluation: the cell event must carry the model's coordinates."""
        import hotxlfp
        rnd = self.rng(spec)
        seen = []
        p = hotxlfp.Parser()
        p.on('callCellValue', lambda cell, setter: seen.append(cell))
        ranges = []
        p.on('callRangeValue', lambda a, b, setter: ranges.append((a, b)))
        for _ in range(spec['n']):
            lab, (ca, ci, ra, ri) = self._rand_label(rnd)
            del seen[:]
            rec.case()
            r = p.parse(lab)
            if r['error'] is not None or len(seen) != 1:
                rec.violation('C19/parser:label-not-delivered-as-one-cell-event', label=lab, record=r, events=len(seen))
                continue
            c = seen[0]
            got = (bool(c.col.is_absolute), c.col.index, bool(c.row.is_absolute), c.row.index)
            if got != (ca, ci, ra, ri) or c.label != lab.upper():
                rec.violation('C19/parser:cell-event-coordinates', label=lab, got=(c.label,) + got, expected=(ca, ci, ra, ri))
            rec.nt(('parser', lab))
            # ... and a label means the same after it has been a CORNER OF A RANGE (in any of the four corner orders, which the parser
            # normalises): decomposed again directly and through another cell event, its parts are still its own
            if _ % 4 == 0:
                lab2, m2 = self._rand_label(rnd)
                if rnd.random() < 0.5:          # small coordinates: both labels are met again and again, in every order
                    lab2, m2 = self._small_label(rnd)
                    lab, (ca, ci, ra, ri) = self._small_label(rnd)
                # the range event: each corner carries the row part of one written corner and the column part of one (the smaller index
                # first, the written order when they are equal), each part with its own $ marker, and a label that says the same
                for first, (fa, fi, fra, fri), second, (sa, si, sra, sri) in ((lab, (ca, ci, ra, ri), lab2, m2), (lab2, m2, lab, (ca, ci, ra, ri))):
                    del ranges[:]
                    p.parse('SUM(%s:%s)' % (first, second))
                    rec.case()
                    (c1, c1a), (c2, c2a) = ((fi, fa), (si, sa)) if fi <= si else ((si, sa), (fi, fa))
                    (r1, r1a), (r2, r2a) = ((fri, fra), (sri, sra)) if fri <= sri else ((sri, sra), (fri, fra))
                    want = [(c1, c1a, r1, r1a, m.compose(c1a, c1, r1a, r1)), (c2, c2a, r2, r2a, m.compose(c2a, c2, r2a, r2))]
                    got = [(x.col.index, bool(x.col.is_absolute), x.row.index, bool(x.row.is_absolute), x.label) for x in (ranges[0] if ranges else ())]
                    if got != want:
                        rec.violation('C19/parser:range-event-corners', formula='SUM(%s:%s)' % (first, second), got=got, expected=want)
                    rec.nt(('range', first, second))
                for l, (xa, xi, ya, yi) in ((lab, (ca, ci, ra, ri)), (lab2, m2)):
                    rec.case()
                    try:
                        parts = hc.extract_label(l)
                    except Exception as e:
                        parts = repr(e)
                    ok = isinstance(parts, list) and len(parts) == 2 and (parts[0].index, bool(parts[0].is_absolute), parts[1].index, bool(parts[1].is_absolute)) == (yi, ya, xi, xa)
                    if not ok:
                        rec.violation('C19/extract_label:wrong-coordinates:after-the-label-was-a-range-corner', label=l, other_corner=lab2 if l is lab else lab, got=parts, expected=(yi, ya, xi, xa))
                    del seen[:]
                    p.parse(l)
                    if len(seen) == 1:
                        c = seen[0]
                        if (bool(c.col.is_absolute), c.col.index, bool(c.row.is_absolute), c.row.index) != (xa, xi, ya, yi) or c.label != l.upper():
                            rec.violation('C19/parser:cell-event-coordinates:after-the-label-was-a-range-corner', label=l, got=(c.label, c.col.index, c.row.index), expected=(xi, yi))
                rec.count('labels_rechecked_after_being_range_corners', 2)
        rec.sample({'formula': lab, 'event': repr(seen[0]) if seen else None})

    def judge(self, merged, tier):
        c = merged['counts']
        why = []
        for k in ('C19.column_index_to_label', 'C19.column_label_to_index', 'C19.extract_label', 'C19.to_label',
                  'C19.row_label_to_index', 'C19.row_index_to_label'):
            if c.get('contract_evals.' + k, 0) == 0:
                why.append('contract %s was never evaluated (re-binding bypassed?)' % k)
        if c.get('columns_enumerated', 0) != NCOLS:
            why.append('column sweep incomplete: %d of %d' % (c.get('columns_enumerated', 0), NCOLS))
        return why

    def extra(self, merged):
        return {'exhaustive': merged['counts'].get('columns_enumerated', 0) == NCOLS,
                'exhaustive_subspace': 'all %d column labels of 1-4 letters, both directions and both letter cases' % NCOLS}
