"""C09 - names resolve to what was registered; unknown names are #NAME?.

Boundary recorder + call log of registered custom functions (arguments recorded, identity-checked) + a
sys.monitoring probe on Parser.call_function / call_variable and the registry lookup (which path was taken).
"""
import os
import re
import string

from .common import FormulaCheck
from ..oracle import canon, outcome
from ..gen import exprs as G
from ..models import cells as mcells
from .. import env, hx, probe

CELLISH = re.compile(r'\$?[A-Za-z]+\$?[0-9]+\Z')
PREDEF = ('TRUE', 'FALSE', 'NULL')


def documented_names():
    path = os.path.join(env.REPO, 'SUPPORTED_FORMULAS.md')
    names = []
    with open(path) as f:
        for line in f:
            if line.startswith('# ') and names:
                break              # first section only
            m = re.match(r'\*\s+([A-Z][A-Z0-9\._]*)\s*$', line)
            if m:
                names.append(m.group(1))
    return names


def rand_name(rnd, kind):
    L = string.ascii_letters
    if kind == 'letters':
        return ''.join(rnd.choice(L + '_') if i else rnd.choice(L) for i in range(rnd.choice([1, 2, 3, 8, 20, 40])))
    if kind == 'underscore-first':
        return '_' + ''.join(rnd.choice(L + '_') for _ in range(rnd.randint(0, 8)))
    if kind == 'digits-inside':          # letter, then letters/digits/underscores, not cell-shaped as a whole, no cell-shaped prefix
        while True:
            s = rnd.choice(L) + '_' + ''.join(rnd.choice(L + string.digits + '_') for _ in range(rnd.randint(1, 10)))
            if not CELLISH.match(s):
                return s
    if kind == 'cell-prefix':            # identifier-shaped but starting like a cell reference: ab12cd, x1_total
        a = ''.join(rnd.choice(L) for _ in range(rnd.randint(1, 3))) + str(rnd.randint(1, 999))
        return a + rnd.choice(['_total', 'cd', 'x', '_', 'Z9z', '_1'])
    if kind == 'host-language-word':     # spellings that Python's own conversions (float(), int(), eval) or keywords give a meaning to
        w = rnd.choice(['inf', 'nan', 'infinity', 'Inf', 'NaN', 'INFINITY', 'Infinity', 'None', 'True', 'False', 'true', 'e', 'E', 'j', 'J', 'lambda', 'is', 'not',
                        'and', 'or', 'in', 'if', 'else', 'self', 'eval', 'int', 'str', 'print', '__class__', '__import__', 'null', 'Null', 'pi', 'Pi'])
        return w if rnd.random() < 0.8 else w + rnd.choice(['_', 'x', 'X_'])
    if kind == 'predefined':             # the three predefined names are names like any other once the host sets them
        return rnd.choice(['TRUE', 'FALSE', 'NULL'])
    if kind == 'underscore-digits':      # _x1
        return '_' + ''.join(rnd.choice(L) for _ in range(rnd.randint(1, 3))) + str(rnd.randint(0, 99))
    raise ValueError(kind)


NAME_KINDS = ['letters', 'letters', 'underscore-first', 'digits-inside', 'cell-prefix', 'underscore-digits', 'host-language-word', 'predefined']


class Falsy(object):
    def __bool__(self):
        return False

    def __len__(self):
        return 0

    def __repr__(self):
        return 'Falsy()'


class FalsyCallable(object):
    """a callable that is falsy (a memoising wrapper with an empty cache, a callable collection): still a function to register"""

    def __init__(self, fn, how):
        self.fn, self.how = fn, how

    def __call__(self, *a):
        return self.fn(*a)

    def __bool__(self):
        if self.how == 'len':
            raise TypeError('use len')
        return False

    def __len__(self):
        return 0


class CallableList(list):
    def __call__(self, *a):
        return self.fn(*a)


class EqualsAll(object):
    def __eq__(self, other):
        return True

    def __ne__(self, other):
        return False

    __hash__ = object.__hash__

    def __repr__(self):
        return 'EqualsAll()'


class Obj(object):
    def __init__(self, tag):
        self.tag = tag

    def __repr__(self):
        return 'Obj(%s)' % self.tag


class Check(FormulaCheck):
    ID = 'C09'
    TITLE = 'Names resolve to what was registered; unknown names are #NAME?'
    TECHNIQUE = 'boundary recorder + call log of registered functions (identity-checked) + lookup-path probe; documented names parsed from SUPPORTED_FORMULAS.md'
    RULE = ('case = one formula: a bare variable name of a generated shape bound to a value of any Python type; a call of a registered custom function '
            '(incl. names shadowing built-ins) whose arguments, call count and return value are recorded; each of the documented names at arities 0-4; '
            'TRUE/FALSE/NULL; or a generated formula with a call to an unregistered function / an unregistered variable embedded at a random position '
            '(operand, k-th argument, array element, nested call, under unary minus, inside IFERROR). non-trivial = oracle evaluated; distinct = distinct (formula, bindings).')
    ASSUMPTIONS = ('names shaped exactly like cell references are cells by definition; function names start with a letter; dotted names are not identifier-shaped',
                   'a variable whose value is an error object is reported as that error (C08) and is excluded from the "exactly that value" clause',
                   'formulas with error literals, syntax errors or raising callbacks are not used for the unknown-name clause')

    def plan(self, tier, seed):
        q = tier == 'quick'
        specs = [{'campaign': 'sentinels'}, {'campaign': 'documented'}]
        for i in range(16):
            specs.append({'campaign': 'variables', 'seed': seed, 'n': 2000 if q else 50000, 'i': i})
            specs.append({'campaign': 'functions', 'seed': seed, 'n': 1200 if q else 30000, 'i': i})
            specs.append({'campaign': 'unknown', 'seed': seed, 'n': 2500 if q else 80000, 'i': i})
        return specs

    def prepare(self, spec, rec):
        self.cp = probe.CallProbe()
        import hotxlfp
        from hotxlfp import formulas
        P = hotxlfp.Parser

        def hit(name, frame):
            rec.cov('lookup_paths', name)
        for n in ('call_function', 'call_variable'):
            if hasattr(P, n):
                self.cp.add(getattr(P, n), hit, n)
            else:
                rec.count('probe_missing')
        self.registry_hits = set()
        disp = getattr(formulas, 'dispatcher', None)
        if disp is not None and hasattr(disp, 'get_for'):
            def reg(name, frame):
                self.registry_hits.add(frame.f_locals.get('fname'))
            self.cp.add(type(disp).get_for, reg, 'registry.get_for')
        self.cp.start()

    def run(self, spec, rec):
        try:
            FormulaCheck.run(self, spec, rec)
        finally:
            if getattr(self, 'cp', None) is not None:
                self.cp.stop()

    # ------------------------------------------------------------------ variables
    def values(self, rnd):
        return rnd.choice([0, 1, -7, 2.5, True, False, None, '', 'text', '12', [1, 2, 3], [[1, 2], [3, 4]], [], Obj(rnd.randint(0, 9)), (1, 2), {'k': 1},
                           3 + 4j, b'bytes', float('inf'), 10 ** 30, lambda: 0, object(), frozenset([1]), 'x' * 50,
                           0.0, -0.0, 0j, (), b'', {}, set(), Falsy(), EqualsAll(), 1e-300, -1, 'NULL', 'TRUE', '#N/A', '=1+1', [None], [0]])

    def c_variables(self, spec, rec):
        rnd = self.rng(spec)
        import hotxlfp
        for j in range(spec['n']):
            if j % 50 == 0:
                self.e = hx.Env()          # a fresh parser now and then (hundreds of names per parser otherwise)
            kind = rnd.choice(NAME_KINDS)
            name = rand_name(rnd, kind)
            if (name in PREDEF and kind != 'predefined') or CELLISH.match(name):
                continue
            v = self.values(rnd)
            self.e.p.set_variable(name, v)
            r = self.parse(name)
            ok = r['error'] is None and (r['result'] is v or (type(r['result']) is type(v) and canon(r['result']) == canon(v)))
            tag = ':name-with-cell-shaped-prefix' if kind == 'cell-prefix' else (':underscore-then-digits' if kind == 'underscore-digits' else (':host-language-word' if kind == 'host-language-word' else (':predefined-name' if kind == 'predefined' else '')))
            self.expect('C09/variable-does-not-evaluate-to-its-value' + tag, ok, name=name, value=v, record=r)
            if name not in ('TRUE', 'FALSE', 'NULL'):
                ro = self.hx_parser().parse(name)
                self.expect('C09/unknown-variable-is-not-#NAME?:registered-on-another-parser', ro == {'result': None, 'error': '#NAME?'}, name=name, record=ro)
            rec.nt(('var', name, repr(v)))
            rec.cov('name_shapes', kind)
            rec.cov('value_types', type(v).__name__)
            # the name used inside a formula
            if isinstance(v, (int, float)) and not isinstance(v, bool) and v == v and abs(v) < 1e20:
                r = self.parse('%s+1' % name)
                self.expect('C09/variable-does-not-evaluate-to-its-value' + tag, r['error'] is None and r['result'] == v + 1, name=name, value=v, formula='%s+1' % name, record=r)
            # rebinding is honoured
            v2 = self.values(rnd)
            self.e.p.set_variable(name, v2)
            r = self.parse(name)
            ok = r['error'] is None and (r['result'] is v2 or (type(r['result']) is type(v2) and canon(r['result']) == canon(v2)))
            self.expect('C09/rebound-variable-keeps-old-value' + tag, ok, name=name, old=v, new=v2, record=r)
            rec.sample({'name': name, 'value': repr(v)}, k=6)
            if kind == 'predefined':
                self.e = hx.Env()          # (the next names get a parser whose TRUE is TRUE)

    def hx_parser(self):
        import hotxlfp
        return hotxlfp.Parser()

    # ------------------------------------------------------------------ custom functions
    def c_functions(self, spec, rec):
        rnd = self.rng(spec)
        builtins = ['SUM', 'MAX', 'IF', 'ABS', 'LEN', 'CONCATENATE', 'ROUND', 'AND', 'NOT', 'INDEX', 'TRUE', 'PI', 'NA', 'ISERROR', 'IFERROR', 'DATE', 'TODAY', 'RAND',
                    'LEFT', 'MID', 'COUNT', 'MIN', 'AVERAGE', 'POWER', 'MOD', 'T', 'N', 'ERROR.TYPE', 'STDEV.S', 'CEILING.MATH']
        for j in range(spec['n']):
            self.e = hx.Env()
            p = self.e.p
            G.install_refs(p)
            log = []
            names = []
            for k in range(rnd.randint(1, 3)):
                kind = rnd.random()
                if kind < 0.35:
                    nm = rnd.choice(builtins)
                elif kind < 0.6:
                    nm = ''.join(rnd.choice(string.ascii_letters) for _ in range(rnd.choice([1, 2, 5, 12])))
                elif kind < 0.8:
                    nm = rnd.choice(string.ascii_letters) + ''.join(rnd.choice(string.ascii_letters + string.digits + '_.') for _ in range(rnd.randint(1, 8)))
                else:
                    nm = rnd.choice(['A1', 'b22', 'my.fn', 'F', 'f_1', 'Sum', 'sum', 'x.y.z'])
                if nm in [n for n, _ in names]:
                    continue
                ret = self.values(rnd) if rnd.random() < 0.5 else rnd.randint(-50, 50)
                if isinstance(ret, float) and ret != ret:
                    ret = 1

                def fn(*a, _nm=nm, _ret=ret):
                    log.append((_nm, a))
                    return _ret
                if rnd.random() < 0.35:
                    # the parser has already met this name (as a built-in, or as an unknown name) before the host registers its function
                    p.parse('%s(1)' % nm)
                    p.parse('%s(1,2)+1' % nm)
                    rec.count('registered_after_the_name_was_already_called')
                shape = rnd.random()
                if shape < 0.15:
                    reg = FalsyCallable(fn, 'bool')
                elif shape < 0.25:
                    reg = CallableList()
                    reg.fn = fn
                elif shape < 0.35:
                    import functools
                    reg = functools.partial(fn)
                elif shape < 0.45:
                    reg = type('Host', (object,), {'method': lambda self_, *a, _f=fn: _f(*a)})().method
                else:
                    reg = fn
                rec.cov('callable_shapes', type(reg).__name__)
                p.set_function(nm, reg)
                names.append((nm, ret))
            if not names:
                continue
            # one call site, arguments are evaluated expressions
            nm, ret = rnd.choice(names)
            argtrees = [G.ExprGen(rnd, maxdepth=rnd.randint(0, 2), allow_cmp=False, allow_amp=False, allow_calls=False).num(rnd.randint(0, 2)) for _ in range(rnd.randint(0, 4))]
            from ..models import rational as R
            try:
                argvals = [R.ev(t) for t in argtrees]
            except (R.Discard, ZeroDivisionError, OverflowError):
                continue
            if any(not R.well_conditioned(v) for v in argvals):
                continue
            f = '%s(%s)' % (nm, ','.join(G.text(G.render(t, 'min')) for t in argtrees))
            shadow = nm in builtins
            nsites = 1
            wrap = rnd.random()
            if wrap < 0.25 and isinstance(ret, int) and not isinstance(ret, bool):
                f2 = '%s+%s' % (f, f)
                nsites = 2
            elif wrap < 0.4:
                f2 = 'IDENT(%s)' % f
                p.set_function('IDENT', lambda x: x)
            else:
                f2 = f
            r = self.parse(f2)
            calls = [c for c in log if c[0] == nm]
            key = 'C09/custom-function' + (':shadowing-built-in' if shadow else '')
            self.expect(key + ':not-called-once-per-call-site', len(calls) == nsites, formula=f2, calls=len(calls), record=r)
            for c in calls:
                ok = len(c[1]) == len(argvals)
                if ok:
                    from .c04 import agrees
                    ok = all(agrees(v, {'result': a, 'error': None}) for v, a in zip(argvals, c[1]))
                self.expect(key + ':wrong-arguments', ok, formula=f2, received=c[1], expected=[repr(v) for v in argvals])
            if nsites == 1 and calls:
                okv = r['error'] is None and (r['result'] is ret or canon(r['result']) == canon(ret))
                XL = hx.errors().XLError
                if isinstance(ret, XL):
                    okv = r['error'] == str(ret)
                self.expect(key + ':return-value-is-not-the-call-value', okv, formula=f2, returned=ret, record=r)
            elif calls and nsites == 2:
                self.expect(key + ':return-value-is-not-the-call-value', r['error'] is None and r['result'] == 2 * ret, formula=f2, returned=ret, record=r)
            # call sites with MANY arguments (a call site is a call site however long it is - the limits other spreadsheets document
            # are not this library's): called once with all of them, in order; and an unknown name stays #NAME? however it is called
            if j % 30 == 0:
                for n in (rnd.choice([5, 30, 100]), rnd.choice([253, 254, 255]), rnd.choice([256, 257]), rnd.choice([300, 700])):
                    sep = rnd.choice([',', ';', '\\'])
                    del log[:]
                    fl = '%s(%s)' % (nm, sep.join(str(i) for i in range(1, n + 1)))
                    r = self.parse(fl)
                    calls = [c for c in log if c[0] == nm]
                    self.expect(key + ':not-called-once-per-call-site:long-argument-list', len(calls) == 1 and calls[0][1] == tuple(range(1, n + 1)), formula=fl[:60] + '...', arguments=n,
                                calls=len(calls), received=len(calls[0][1]) if calls else None, record=r)
                    okv = bool(calls) and (r['error'] == str(ret) if isinstance(ret, hx.errors().XLError) else (r['error'] is None and (r['result'] is ret or canon(r['result']) == canon(ret))))
                    self.expect(key + ':return-value-is-not-the-call-value:long-argument-list', okv or not calls, formula=fl[:60] + '...', arguments=n, returned=ret, record=r)
                    for fu in ('nosuch_fn(%s)', '1+nosuch_fn(%s)', 'nosuch_fn(%s)+1', 'IF(nosuch_fn(%s),1,2)'):
                        ru = self.parse(fu % sep.join(str(i) for i in range(1, n + 1)))
                        self.expect('C09/unknown-function-is-not-#NAME?:long-argument-list', ru == {'result': None, 'error': '#NAME?'}, formula=(fu % '1..n'), arguments=n, record=ru)
                    rs = self.parse('COUNT(%s)' % sep.join(str(i) for i in range(1, n + 1))) if 'COUNT' not in [x for x, _ in names] else None
                    if rs is not None:
                        self.expect('C09/documented-name-does-not-resolve-to-built-in:long-argument-list', rs == {'result': n, 'error': None}, formula='COUNT(1..n)', arguments=n, record=rs)
                    rec.nt((nm, n, sep))
            # the same names on ANOTHER parser of this process: custom ones are unknown there, shadowed built-ins are the built-ins
            import hotxlfp
            other = hotxlfp.Parser()
            before = len(log)
            documented = set(documented_names())
            for onm, _ in names:
                ro = other.parse('%s(1,2)' % onm)
                if onm in builtins or onm in documented:
                    self.expect(key + ':custom-function-of-another-parser-called', len(log) == before, name=onm, record=ro)
                else:
                    self.expect('C09/unknown-function-is-not-#NAME?:registered-on-another-parser', ro == {'result': None, 'error': '#NAME?'}, name=onm, record=ro)
            rec.nt((f2, repr(ret)))
            rec.cov('function_name_kinds', 'shadow' if shadow else ('cellish' if CELLISH.match(nm) else ('dotted' if '.' in nm else 'plain')))
            rec.sample({'formula': f2, 'registered': [n for n, _ in names]}, k=6)

    # ------------------------------------------------------------------ documented names
    def c_documented(self, spec, rec):
        names = documented_names()
        rec.count('documented_names', len(names))
        self.expect('C09/documented-list-unreadable', len(names) >= 100, found=len(names))
        for nm in names:
            outcomes = []
            self.registry_hits.discard(nm)
            for arity in range(0, 5):
                for arg in ('"1"', '1'):
                    f = '%s(%s)' % (nm, ','.join([arg] * arity))
                    r = self.parse(f)
                    outcomes.append((f, r['error']))
                    if arity == 0:
                        break
            resolved = any(err != '#NAME?' for _, err in outcomes)
            self.expect('C09/documented-name-does-not-resolve', resolved, name=nm, outcomes=outcomes[:4])
            if resolved and nm not in self.registry_hits:
                rec.count('registry_probe_not_hit')
            rec.nt(('doc', nm))
            rec.cov('documented_resolved', nm)
        for nm, exp in (('TRUE', True), ('FALSE', False), ('NULL', None)):
            r = self.parse(nm)
            self.expect('C09/predefined-name:' + nm, r == {'result': exp, 'error': None} and r['result'] is exp, name=nm, record=r)
            r = self.parse('IF(%s,1,2)' % nm)
            self.expect('C09/predefined-name:' + nm, r == {'result': 1 if exp else 2, 'error': None}, name=nm, record=r, used='in IF')
        rec.sample({'documented_names': names[:8]})

    # ------------------------------------------------------------------ unknown names
    def c_unknown(self, spec, rec):
        rnd = self.rng(spec)
        self.e = hx.Env()
        G.install_refs(self.e.p)
        known = set(documented_names()) | set(G.VARS) | set(PREDEF) | {'EV'}      # EV: registered below by this campaign itself
        for _ in range(spec['n']):
            is_fn = rnd.random() < 0.6
            if is_fn:
                k = rnd.random()
                if k < 0.3:
                    nm = rnd.choice(['NOSUCH', 'sum', 'Sum', 'SUMM', 'XLOOKUP', 'nosuch', 'F', 'VLOOKUP', 'max', 'IFF', 'TRUE1', 'A1', 'my.fn'])
                else:
                    nm = rnd.choice(string.ascii_letters) + ''.join(rnd.choice(string.ascii_letters + string.digits + '_') for _ in range(rnd.randint(0, 10)))
                if nm in known:
                    continue
                nargs = rnd.randint(0, 4)
                args = [rnd.choice(['1', '"a"', 'xa', 'A1', '2.5', 'SUM(1,2)', '{1,2}', '1/0', 'TRUE', '-3', 'yb*2']) for _ in range(nargs)]
                unk = '%s(%s)' % (nm, rnd.choice([',', ';']).join(args))
                what = 'function'
            else:
                nm = rand_name(rnd, rnd.choice(NAME_KINDS))
                if nm in known or CELLISH.match(nm):
                    continue
                unk = nm
                what = 'variable'
            ctx = rnd.choice(['whole', 'left', 'right', 'arg-first', 'arg-last', 'array', 'nested', 'uminus', 'iferror', 'cmp', 'amp', 'deep', 'paren', 'if-branch', 'iserror',
                              'after-nested-evaluations', 'after-nested-evaluations', 'between-nested-evaluations'])
            # EV evaluates its (text) argument on THIS parser, as a host does that keeps formulas in cells: the unknown name stands behind
            # one, two or three such nested evaluations of the same outer formula
            self.e.p.set_function('EV', lambda t, _p=self.e.p: _p.parse(str(t))['result'])
            carrier = G.text(G.render(G.ExprGen(rnd, maxdepth=rnd.randint(0, 3)).tree(), 'min'))
            f = {'whole': unk, 'left': '%s+%s' % (unk, carrier), 'right': '(%s)*%s' % (carrier, unk), 'arg-first': 'SUM(%s,1,2)' % unk, 'arg-last': 'MAX(1,(%s),%s)' % (carrier, unk),
                 'array': '{1,%s,3}' % unk, 'nested': 'ABS(SUM(1,MAX(%s,2)))' % unk, 'uminus': '-%s' % unk, 'iferror': 'IFERROR(%s,0)' % unk, 'cmp': '%s=1' % unk,
                 'amp': '"a"&%s' % unk, 'deep': '((1+(2*(%s))))-(%s)' % (unk, carrier), 'paren': '(%s)' % unk, 'if-branch': 'IF(TRUE,1,%s)' % unk, 'iserror': 'ISERROR(%s)' % unk,
                 'after-nested-evaluations': rnd.choice(['SUM(EV("1"),EV("2"))+%s', 'EV("1")+EV("2")+%s', 'EV("1+1")*EV("xa")*EV("3")-%s', 'MAX(EV("A1"),EV("2"),%s)', 'EV("1")&EV("nosuch2")&%s']) % unk,
                 'between-nested-evaluations': 'EV("1")+EV("2")+%s+EV("3")' % unk}[ctx]
            handling = None
            if rnd.random() < 0.15:
                # the unknown name is met while the host is handling an error of the library (a fallback formula evaluated in an except block)
                handling = rnd.choice(list(hx.error_objects().values()))
                try:
                    raise handling
                except type(handling):
                    r = self.parse(f)
                rec.count('unknown_names_evaluated_while_an_error_is_being_handled')
            else:
                r = self.parse(f)
            tag = ''
            if what == 'variable' and re.match(r'[A-Za-z]+[0-9]+', nm):
                tag = ':name-with-cell-shaped-prefix'
            elif what == 'variable' and re.match(r'_[A-Za-z_]*[0-9]', nm):
                tag = ':underscore-then-digits'
            elif what == 'variable' and nm.lower() in ('inf', 'nan', 'infinity', 'none', 'true', 'false', 'e', 'j'):
                tag = ':host-language-word'
            self.expect('C09/unknown-%s-is-not-#NAME?%s' % (what, tag), r == {'result': None, 'error': '#NAME?'}, formula=f, unknown=unk, record=r, context=ctx)
            rec.nt(f)
            rec.cov('unknown_contexts', (what, ctx))
            rec.sample({'formula': f}, k=8)

    def c_sentinels(self, spec, rec):
        for f in ('NOSUCH(1)', 'NOSUCH(1)+1', 'sum(1,2)', '1+NOSUCH()', 'SUM(1,NOSUCH(2))', 'nosuchvar', 'nosuchvar+1', 'IFERROR(NOSUCH(1),0)', 'IFERROR(nosuchvar,0)', '-NOSUCH(1)', '{1,NOSUCH(1)}'):
            r = self.parse(f)
            self.expect('C09/unknown-%s-is-not-#NAME?' % ('function' if '(' in f.replace('IFERROR(', '').replace('SUM(', '') else 'variable'), r == {'result': None, 'error': '#NAME?'}, formula=f, record=r)
            rec.nt(f)
        for nm in ('ab12cd', 'x1_total', 'A1B2', 'q9z'):
            self.e.p.set_variable(nm, 41)
            r = self.parse(nm)
            self.expect('C09/variable-does-not-evaluate-to-its-value:name-with-cell-shaped-prefix', r == {'result': 41, 'error': None}, name=nm, record=r)
        self.e.p.set_variable('_x1', 5)
        r = self.parse('_x1')
        self.expect('C09/variable-does-not-evaluate-to-its-value:underscore-then-digits', r == {'result': 5, 'error': None}, name='_x1', record=r)

    def judge(self, merged, tier):
        why = []
        if merged['counts'].get('documented_names', 0) < 150:
            why.append('fewer than 150 documented names were read: %s' % merged['counts'].get('documented_names'))
        if len(merged['cover'].get('unknown_contexts', ())) < 25:
            why.append('unknown-name contexts exercised: %d' % len(merged['cover'].get('unknown_contexts', ())))
        return why
