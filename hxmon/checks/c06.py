"""C06 - arithmetic and concatenation follow the implicit type-conversion table.

Boundary recorder: a OP b with operands injected as variables, cell values or literals, for all ordered pairs
of operand classes x {+,-,*,/,&}; judged by models/convtable.py (exact rationals, serials from toordinal).
The serial contracts of contracts.py watch every date conversion the operators make; a sys.monitoring probe on
evaluate_arithmetic records which (operator, left type, right type) cells of the conversion table really ran.
"""
import datetime

from ..runner import BaseCheck
from ..models import convtable as M
from ..oracle import is_num, close, dt_close, canon, outcome
from ..gen import values as GV
from .. import env, hx, probe
from fractions import Fraction as Fr

D = datetime.datetime
OPS = ['+', '-', '*', '/']
TIGHT = Fr(1, 10 ** 12)
CLASSES = ['int', 'float', 'bool', 'blank', 'numtext', 'text', 'emptytext', 'date', 'datetime', 'datetext', 'array', 'nested']


class Check(BaseCheck):
    ID = 'C06'
    TITLE = 'Arithmetic and concatenation follow the implicit type-conversion table'
    TECHNIQUE = 'boundary recorder on Parser.parse vs exact conversion-table model; serial contracts; conversion-cell coverage probe'
    RULE = ('case = a OP b for one ordered pair of operand classes (int, float, logical, blank, numeric text, non-numeric text, empty text, date, '
            'date-time, ISO date text, flat array, nested array) and one operator of + - * / &, operands injected as variables, cells or literals. '
            'non-trivial = the model produced a definite expectation (not skipped as outside the statement) and it was compared; '
            'distinct = distinct (operator, operands, injection).')
    ASSUMPTIONS = ('which text spells a date is decided by dateutil (trusted base); non-numeric text is screened with it',
                   'date results with serial in [0,61) (January/February 1900) or beyond 9999-12-31 are not judged',
                   'one-element arrays (which combine like a scalar) and empty arrays are judged for commutativity only; for & only text, integers and blanks are claimed',
                   'result kind = date iff exactly one operand is date-like, except blank/date -> number (pinned by test_implicit_conversions_blank)')

    def plan(self, tier, seed):
        specs = [{'campaign': 'sentinels'}]
        if tier == 'quick':
            for i in range(16):
                specs.append({'campaign': 'pairs', 'draws': 10, 'seed': seed, 'i': i})
                specs.append({'campaign': 'amp', 'n': 5000, 'seed': seed, 'i': i})
            for z in ('EST5EDT,M3.2.0,M11.1.0', 'CET-1CEST,M3.5.0,M10.5.0/3'):
                specs.append({'campaign': 'pairs', 'draws': 6, 'seed': seed, 'i': 'tz', 'tz': z})      # dates act through their serial in any process time zone
            specs.append({'campaign': 'pairs', 'draws': 6, 'seed': seed, 'i': 'dc', 'decimal_context': {'prec': 5, 'trap_inexact': True}})      # ... and under any decimal context
        else:
            for i in range(32):
                specs.append({'campaign': 'pairs', 'draws': 160, 'seed': seed, 'i': i})
                specs.append({'campaign': 'amp', 'n': 40000, 'seed': seed, 'i': i})
            for z in ('EST5EDT,M3.2.0,M11.1.0', 'CET-1CEST,M3.5.0,M10.5.0/3', 'AEST-10AEDT,M10.1.0,M4.1.0/3', 'IST-5:30'):
                specs.append({'campaign': 'pairs', 'draws': 60, 'seed': seed, 'i': 'tz', 'tz': z})
        return specs

    # ------------------------------------------------------------------
    def run(self, spec, rec):
        env.load()
        self.e = hx.Env()
        self.cellvals = {}
        self.e.p.on('callCellValue', lambda cell, setter: setter(self.cellvals.get(cell.label)))
        from dateutil.parser import parse as du

        def parse_date_text(s, strict=True):
            # which text spells a date is dateutil's call; which date a text with MISSING fields ('1,5', 'March 2020', '10:30') spells is
            # nobody's (the statement does not say, and no oracle may fill them in from today): such text is not judged
            try:
                d = du(s, default=D(1900, 1, 1))
                d2 = du(s, default=D(2001, 2, 3, 4, 5, 6))
            except (ValueError, OverflowError):
                return None
            d, d2 = (x.replace(tzinfo=None) if x.tzinfo is not None else x for x in (d, d2))
            if d != d2:
                if strict:
                    raise M.Skip('date text with missing fields')
                return d
            return d
        self.pdt = parse_date_text
        cp = probe.CallProbe()
        from hotxlfp.formulas import operators
        if hasattr(operators, 'evaluate_arithmetic'):
            def hit(name, frame):
                try:
                    lo = frame.f_locals
                    rec.cov('conversion_cells', (lo['op'], GV.broad_class(lo['lval']), GV.broad_class(lo['rval'])))
                except Exception:
                    pass
            cp.add(operators.evaluate_arithmetic, hit, 'evaluate_arithmetic')
        else:
            rec.count('probe_missing')
        cp.start()
        try:
            getattr(self, 'c_' + spec['campaign'])(spec, rec)
        finally:
            cp.stop()

    def gen(self, rnd, cls):
        if cls == 'array':
            n = rnd.choice([1, 2, 2, 3, 4, 5, 6, 0])    # one-element and empty arrays: only commutativity is judged (see ASSUMPTIONS)
            return [GV.gen(rnd, rnd.choice(['int', 'float', 'int', 'bool', 'blank', 'numtext', 'text', 'date'])) for _ in range(n)]
        if cls == 'nested':
            k, rows = rnd.choice([1, 2, 2, 3, 4]), rnd.choice([1, 2, 2, 2, 3])      # also 1xk, kx1 and 1x1: commutativity only
            return [[GV.gen(rnd, rnd.choice(['int', 'float', 'numtext'])) for _ in range(k)] for _ in range(rows)]
        v = GV.gen(rnd, cls)
        if cls == 'text' and (self.pdt(v, False) is not None or M.spelled_number_safe(v)):
            return 'abc'
        return v

    def inject(self, a, b, op, how):
        if how == 'var':
            self.e.bind(v_a=a, v_b=b)
            return 'v_a%sv_b' % op
        if how == 'cell':
            self.cellvals['A1'], self.cellvals['$B$2'] = a, b
            return 'A1%s$b$2' % op
        la, lb = self.literal(a), self.literal(b)
        if la is None or lb is None or a == [] or b == []:        # (there is no literal for an empty array)
            self.e.bind(v_a=a, v_b=b)
            return 'v_a%sv_b' % op
        return '%s%s%s' % (la, op, lb)

    def literal(self, x):
        if x is None:
            return 'NULL'
        if isinstance(x, bool):
            return 'TRUE' if x else 'FALSE'
        if isinstance(x, str):
            return hx.strlit(x)
        if isinstance(x, (int, float)):
            return hx.lit(x)
        if isinstance(x, list):
            parts = [self.literal(y) for y in x]
            if any(p is None or isinstance(y, list) for p, y in zip(parts, x)):
                return None
            return '{' + ','.join(parts) + '}'
        return None

    def matches(self, exp, got):
        """does implementation value `got` (python value, possibly XLError inside arrays) equal model outcome?"""
        kind = exp[0]
        XLError = hx.errors().XLError
        if kind == 'err':
            return isinstance(got, XLError) and str(got) == exp[1]
        if kind == 'num':
            # one correctly rounded operation: far inside 1e-12; a date operand first becomes a serial, a double near 1e6 whose own rounding
            # (up to 2.3e-10 in year 9999) survives a subtraction in full, hence the absolute allowance when dates are involved
            return is_num(got) and abs(Fr(got) - exp[1]) <= TIGHT * max(1, abs(exp[1])) + getattr(self, 'serial_slack', 0)
        if kind == 'date':
            return dt_close(got, exp[1])
        if kind == 'arr':
            return isinstance(got, list) and len(got) == len(exp[1]) and all(self.matches(x, g) for x, g in zip(exp[1], got))
        return False

    def judge_one(self, rec, op, a, b, how, ca='', cb=''):
        f = self.inject(a, b, op, how)
        r = self.e.raw(f)
        rec.case()

        def datey(x):
            if isinstance(x, list):
                return any(datey(y) for y in x)
            return isinstance(x, D) or (isinstance(x, str) and self.pdt(x, False) is not None)
        self.serial_slack = Fr(1, 10 ** 9) if (datey(a) or datey(b)) else 0
        try:
            exp = M.combine(op, a, b, self.pdt)
        except M.Skip as s:
            rec.count('skipped.' + str(s).split('(')[0].strip())
            return r
        got = r['result']
        if r['error'] is not None:
            ok = exp[0] == 'err' and exp[1] == r['error']
        else:
            ok = exp[0] != 'err' and self.matches(exp, got)
            if ok and exp[0] == 'num' and op in '+-*' and all(isinstance(x, int) for x in (a, b)) and type(got) is not int:
                # whole numbers and logicals under + - * give a whole number, not its float ("integers as their digits" under a following &)
                rec.violation('C06/%s:whole-operands-give-a-float' % op, formula=f, a=a, b=b, record=r, injected=how)
            if ok and exp[0] == 'num' and op in '+-*' and all(isinstance(x, int) and not isinstance(x, bool) for x in (a, b)):
                ok = Fr(got) == exp[1]          # integer arithmetic is exact, also beyond 2**53
            elif ok and exp[0] == 'num' and op in '+-*/' and all(isinstance(x, (int, float)) for x in (a, b)) and is_num(got):
                # one correctly rounded operation on two numbers: within an ulp OF THE RESULT, however small it is beside the operands
                ok = abs(Fr(got) - exp[1]) <= abs(exp[1]) * Fr(1, 2 ** 51)
                if not ok:
                    rec.violation('C06/%s:number-number:result-not-within-an-ulp-of-the-exact-value' % op, formula=f, a=a, b=b, record=r, expected=float(exp[1]), injected=how)
                    ok = True       # reported under its own key
        if not ok:
            rec.violation('C06/%s:%s-%s:expected-%s' % (op, GV.broad_class(a), GV.broad_class(b), exp[0] if exp[0] != 'err' else exp[1]),
                          formula=f, a=a, b=b, record=r, expected=exp, injected=how)
        rec.nt((op, repr(a), repr(b), how))
        rec.cov('class_pairs', (op, ca or GV.broad_class(a), cb or GV.broad_class(b)))
        rec.cov('result_kinds', exp[0])
        return r

    def c_pairs(self, spec, rec):
        rnd = self.rng(spec)
        for _ in range(spec['draws']):
            for ca in CLASSES:
                for cb in CLASSES:
                    a, b = self.gen(rnd, ca), self.gen(rnd, cb)
                    if ca in ('int', 'float') and cb in ('int', 'float') and rnd.random() < 0.25 and isinstance(a, (int, float)) and a == a and abs(a) < 1e300 and (isinstance(a, float) or abs(a) < 2 ** 53):
                        # operands that agree to 15 digits without being equal: their sum or difference is tiny beside them
                        import math
                        b = float(a)
                        for _ in range(rnd.randint(1, 4)):
                            b = math.nextafter(b, rnd.choice([-math.inf, math.inf]))
                        if rnd.random() < 0.5:
                            b = -b
                    if rnd.random() < 0.08 and isinstance(a, list):
                        b = [GV.gen(rnd, 'int') for _ in range(len(a))]          # equal-length array pairs
                    for op in OPS:
                        how = rnd.choice(['var', 'var', 'cell', 'lit'])
                        r1 = self.judge_one(rec, op, a, b, how, ca, cb)
                        if op in '+*':
                            r2 = self.judge_one(rec, op, b, a, how, cb, ca)
                            if outcome(r1) != outcome(r2):
                                single = any(isinstance(x, list) and len(x) > 0 and (len(x) == 1 or (isinstance(x[0], list) and len(x[0]) == 1)) for x in (a, b))
                                if any(isinstance(x, list) and len(x) == 0 for x in (a, b)):
                                    single = 'empty'
                                rec.violation('C06/%s-not-commutative:%s-%s%s' % (op, GV.broad_class(a), GV.broad_class(b), (':empty-array' if single == 'empty' else ':one-element-array') if single else ''), a=a, b=b, ab=r1, ba=r2)
                            rec.count('commutativity_pairs')
                    rec.sample({'a': repr(a), 'b': repr(b), 'ops': OPS})

    def c_amp(self, spec, rec):
        rnd = self.rng(spec)
        for _ in range(spec['n']):
            def operand():
                k = rnd.random()
                if k < 0.4:
                    return rnd.choice(['abc', '', 'x y', '12', 'é', ' ', 'TRUE', '#N/A', '1.50', 'a"b', "it's"])
                if k < 0.65:
                    return rnd.choice([0, 1, -1, 42, 10 ** 15, -7, rnd.randint(-10 ** 6, 10 ** 6), 10 ** 650, 10 ** 1200 + 7, -(10 ** 700), rnd.randint(10 ** 620, 10 ** 640) * 10 ** 30,
                                       int('9' * 599 + '0' * 40 + '5')])
                if k < 0.78:
                    # an integer is an integer whether it is held as int or as float (6/3 is 2): its digits
                    return float(rnd.choice([0, 2, -3, 42, 10 ** 6, 123456789, rnd.randint(-10 ** 9, 10 ** 9)]))
                return None
            n = rnd.randint(2, 4)
            ops = [operand() for _ in range(n)]
            how = rnd.choice(['var', 'cell', 'lit'])
            exp = ''.join('' if x is None else (x if isinstance(x, str) else str(int(x))) for x in ops)
            if how == 'var':
                for i, x in enumerate(ops):
                    self.e.bind(**{hx.varname(i): x})
                f = '&'.join(hx.varname(i) for i in range(n))
            elif how == 'cell':
                labs = ['A1', 'B2', 'C3', 'D4'][:n]
                for l, x in zip(labs, ops):
                    self.cellvals[l] = x
                f = '&'.join(labs)
            else:
                lits = [self.literal(x) for x in ops]
                if any(l is None for l in lits):
                    continue
                f = '&'.join(lits)
            r = self.e.raw(f)
            rec.case()
            if r['error'] is not None or r['result'] != exp:
                kinds = sorted(set(GV.broad_class(x) for x in ops))
                rec.violation('C06/&:' + ('blank-operand' if None in ops else '+'.join(kinds)), formula=f, operands=ops, record=r, expected=exp, injected=how)
            rec.nt(('&', repr(ops), how))
            rec.cov('amp_operand_kinds', tuple(sorted(set(GV.broad_class(x) for x in ops))))
            rec.sample({'formula': f, 'operands': repr(ops), 'expected': exp})

    def c_sentinels(self, spec, rec):
        T = D
        cases = [('+', T(2019, 11, 20), 1), ('+', 1, T(2019, 11, 20)), ('-', T(2019, 11, 20), T(2019, 11, 19)), ('-', 1, T(2019, 11, 20)),
                 ('*', T(2019, 1, 1), 2), ('/', T(2019, 1, 1), 2), ('/', None, T(2019, 1, 1)), ('/', T(2019, 1, 1), None), ('+', None, None),
                 ('+', True, 1), ('*', False, 5), ('+', '3', 4), ('+', ' 12 ', 1), ('+', 'abc', 1), ('+', 1, 'abc'), ('+', '', 1), ('/', 1, 0), ('/', 1, None),
                 ('/', 0, 0), ('+', '2020-02-29', 1), ('-', '2020-02-29', '2020-02-28'), ('+', [1, 2, 3], 1), ('-', 1, [1, 2, 3]), ('/', 6, [1, 2, 3]),
                 ('+', [1, 2], [1, 2, 3]), ('*', [1, 2, 3], [4, 5, 6]), ('-', [[1, 2], [3, 4]], [[1, 1], [1, 1]]), ('+', [[1, 2], [3, 4]], 10),
                 ('+', [1, 'x', None], 1), ('+', 0.1, 0.2), ('-', T(1950, 6, 15, 1, 2, 3, 4000), 0.5), ('+', 'TRUE', 1)]
        for op, a, b in cases:
            for how in ('var', 'cell', 'lit'):
                self.judge_one(rec, op, a, b, how)
        import random
        self.c_amp({'n': 0}, rec)
        for ops, exp in [((None, 'x'), 'x'), (('x', None), 'x'), ((None, None), ''), ((1, 2), '12'), (('a', 1, None, 'b'), 'a1b'), ((-5, ''), '-5')]:
            for i, x in enumerate(ops):
                self.e.bind(**{hx.varname(i): x})
            f = '&'.join(hx.varname(i) for i in range(len(ops)))
            r = self.e.raw(f)
            rec.case()
            if r['error'] is not None or r['result'] != exp:
                rec.violation('C06/&:' + ('blank-operand' if None in ops else 'text+number'), formula=f, operands=ops, record=r, expected=exp)
        r = self.e.raw('NULL&"x"')
        rec.case()
        if r['result'] != 'x':
            rec.violation('C06/&:blank-operand', formula='NULL&"x"', record=r, expected='x')

    def judge(self, merged, tier):
        why = []
        n = len(merged['cover'].get('class_pairs', ()))
        if n < 4 * 100:
            why.append('only %d (operator, class, class) cells were exercised' % n)
        if merged['counts'].get('commutativity_pairs', 0) == 0:
            why.append('no commutativity pair compared')
        return why
