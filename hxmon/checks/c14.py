"""C14 - date and time functions agree with the proleptic Gregorian calendar.

Boundary recorder vs a reference built only on datetime.date / calendar: components of DATE/TIME/ISO text/serials,
DAYS and DATEDIF (d, m, y, ym), WEEKDAY types 1-3, EDATE with clamping and range errors.
"""
import calendar
import datetime
import random
import re

from .common import FormulaCheck
from ..oracle import BASE_ORD
from .. import hx

ORD0 = datetime.date(1900, 1, 1).toordinal()
ORDN = datetime.date(9999, 12, 31).toordinal()
M1 = datetime.date(1900, 3, 1)
J1 = datetime.date(1900, 1, 1)


RND_FLOAT = random.Random(14)
DATE_OR_TIME_CALL = re.compile(r'\b(DATE|TIME)\((-?\d+,-?\d+,-?\d+)\)')


def dcall(d):
    return 'DATE(%d,%d,%d)' % (d.year, d.month, d.day)


class Check(FormulaCheck):
    ID = 'C14'
    TITLE = 'Date and time functions agree with the proleptic Gregorian calendar'
    TECHNIQUE = 'boundary recorder on Parser.parse vs datetime.date/calendar reference'
    RULE = ('case = one formula: YEAR/MONTH/DAY of DATE(y,m,d), of ISO text and of whole-day serials; HOUR/MINUTE/SECOND of TIME(h,m,s) and of ISO text; '
            'DATE with years 0-1899; DAYS; DATEDIF units d m y ym (both letter cases) incl. start > end; WEEKDAY types 1-3 and other types; EDATE with offsets '
            'from {0,+-1,+-11,+-12,+-13,+-1200,+-120000} and random ones. Dates: boundary years around leap/century rules plus random (quick); every valid date '
            '1900-9999 for the component laws and WEEKDAY (thorough). non-trivial = compared with the reference; distinct = distinct formula.')
    ASSUMPTIONS = ('day differences (DAYS, DATEDIF "d") are judged for pairs on the same side of 1 March 1900 only (phantom 29 February of the serial system)',
                   'DATEDIF units md/yd are not in the statement; arguments are numbers; WEEKDAY types other than 1-3 include non-integers (2.5 is not a numbering)',
                   'whole-day serials are judged from 61 (1 March 1900) on')

    NO_AMBIENT = ('alldays',)

    def plan(self, tier, seed):
        q = tier == 'quick'
        specs = [{'campaign': 'sentinels'}]
        for i in range(16):
            specs.append({'campaign': 'random', 'seed': seed, 'n': 1200 if q else 30000, 'i': i})
        # the same workload with the process in other time zones (daylight-saving rules of both hemispheres, a half-hour offset)
        for z in ('EST5EDT,M3.2.0,M11.1.0', 'AEST-10AEDT,M10.1.0,M4.1.0/3', 'IST-5:30'):
            specs.append({'campaign': 'random', 'seed': seed, 'n': 400 if q else 8000, 'i': 'tz', 'tz': z})
        if q:
            years = [1900, 1901, 1903, 1904, 1999, 2000, 2001, 2020, 2023, 2024, 2099, 2100, 2101, 2399, 2400, 9998, 9999, 1950, 3000, 4000]
            for i in range(4):
                specs.append({'campaign': 'years', 'years': years[i::4]})
        else:
            k = 64
            st = (ORDN - ORD0 + 1 + k - 1) // k
            for i in range(k):
                specs.append({'campaign': 'alldays', 'lo': ORD0 + i * st, 'hi': min(ORDN + 1, ORD0 + (i + 1) * st)})
            specs.append({'campaign': 'times'})
        return specs

    def chk(self, key, f, exp):
        g = self.ev(f)
        m_ = DATE_OR_TIME_CALL.search(f)
        if m_ and RND_FLOAT.random() < 0.15:
            # year, month, day, hour, minute and second are whole numbers whether they are held as ints or as floats (2040/2 is 1020)
            f_float = f[:m_.start()] + '%s(%s)' % (m_.group(1), ','.join('(%s*2/2)' % a for a in m_.group(2).split(','))) + f[m_.end():]
            g_float = self.ev(f_float)
            self.expect('C14/' + key + ':parts-held-as-float', g_float == g and type(g_float) is type(g), formula=f_float, got=g_float, with_int_parts=g)
        if exp == 'ERR:#NUM!':
            ok = g == exp
        elif isinstance(exp, int) and not isinstance(exp, bool):
            ok = isinstance(g, (int, float)) and not isinstance(g, bool) and g == exp      # value, not int-vs-float representation
        else:
            ok = g == exp and type(g) is type(exp)
        self.expect('C14/' + key, ok, formula=f, got=g, expected=exp)
        self.rec.nt(f)

    def components(self, a):
        A = dcall(a)
        self.chk('YEAR(DATE)', 'YEAR(%s)' % A, a.year)
        self.chk('MONTH(DATE)', 'MONTH(%s)' % A, a.month)
        self.chk('DAY(DATE)', 'DAY(%s)' % A, a.day)
        wd = a.weekday()
        self.chk('WEEKDAY-type-1', 'WEEKDAY(%s)' % A, (wd + 1) % 7 + 1)
        self.chk('WEEKDAY-type-2', 'WEEKDAY(%s,2)' % A, wd + 1)
        self.chk('WEEKDAY-type-3', 'WEEKDAY(%s,3)' % A, wd)
        if a >= M1:
            s = a.toordinal() - BASE_ORD
            self.chk('YEAR(serial)', 'YEAR(%d)' % s, a.year)
            self.chk('MONTH(serial)', 'MONTH(%d)' % s, a.month)
            self.chk('DAY(serial)', 'DAY(%d)' % s, a.day)

    def c_years(self, spec, rec):
        for y in spec['years']:
            d = datetime.date(y, 1, 1)
            while d.year == y:
                self.components(d)
                if d.toordinal() == ORDN:
                    break
                d += datetime.timedelta(days=1)
        rec.sample({'years': spec['years']})

    def c_alldays(self, spec, rec):
        for o in range(spec['lo'], spec['hi']):
            self.components(datetime.date.fromordinal(o))
        rec.count('days_enumerated', spec['hi'] - spec['lo'])
        rec.sample({'from': str(datetime.date.fromordinal(spec['lo']))})

    def c_times(self, spec, rec):
        for h in range(24):
            for mi in range(60):
                for s in (0, 1, 29, 30, 59):
                    T = 'TIME(%d,%d,%d)' % (h, mi, s)
                    self.chk('HOUR(TIME)', 'HOUR(%s)' % T, h)
                    self.chk('MINUTE(TIME)', 'MINUTE(%s)' % T, mi)
                    self.chk('SECOND(TIME)', 'SECOND(%s)' % T, s)

    BOUNDARY_DAYS = [datetime.date(1900, 1, 2), datetime.date(1900, 1, 31), datetime.date(1900, 2, 27), datetime.date(1900, 2, 28), datetime.date(1900, 3, 1), datetime.date(1900, 3, 2),
                     datetime.date(1999, 12, 31), datetime.date(2000, 2, 29), datetime.date(2000, 12, 31), datetime.date(2400, 12, 31), datetime.date(9999, 12, 30), datetime.date(9999, 12, 31)]

    def rdate(self, rnd):
        if rnd.random() < 0.08:
            return rnd.choice(self.BOUNDARY_DAYS)
        y = rnd.choice([1900, 1901, 1904, 1999, 2000, 2001, 2019, 2020, 2100, 2400, 9999, rnd.randint(1900, 9999), rnd.randint(1900, 2100)])
        m = rnd.randint(1, 12)
        d = rnd.randint(1, calendar.monthrange(y, m)[1])
        if rnd.random() < 0.2:
            d = calendar.monthrange(y, m)[1]
        return datetime.date(y, m, d)

    def with_time_of_day(self, rnd, a, b):
        """DAYS / DATEDIF "d" on date-times (host values and ISO text) of two days on the same side of 1 March 1900: the calendar difference in
        days is the elapsed time in days or - counting whole days - the difference of the two dates; nothing else"""
        from fractions import Fraction as Fr
        D = datetime.datetime
        ta = D(a.year, a.month, a.day) + datetime.timedelta(seconds=rnd.choice([0, 1, 43200, 86399, rnd.randrange(86400)]))
        tb = D(b.year, b.month, b.day) + datetime.timedelta(seconds=rnd.choice([0, 1, 43200, 86399, rnd.randrange(86400)]))
        el = Fr((tb - ta).days) + Fr((tb - ta).seconds, 86400)
        whole = b.toordinal() - a.toordinal()
        how = rnd.choice(['host', 'text'])
        if how == 'host':
            A, B = 'd_a', 'd_b'
            self.e.bind(d_a=ta, d_b=tb)
        else:
            A, B = '"%s"' % ta.strftime('%Y-%m-%d %H:%M:%S'), '"%s"' % tb.strftime('%Y-%m-%dT%H:%M:%S')
        early = ':jan-feb-1900' if a < M1 else ''
        g = self.ev('DAYS(%s,%s)' % (B, A))
        ok = isinstance(g, (int, float)) and not isinstance(g, bool) and (abs(Fr(g) - el) <= Fr(1, 10 ** 7) or g == whole)
        self.expect('C14/DAYS(date-times)' + early, ok, formula='DAYS(%s,%s)' % (B, A), d_a=ta, d_b=tb, got=g, accepted=[float(el), whole])
        if ta < tb:
            g = self.ev('DATEDIF(%s,%s,"d")' % (A, B))
            fl = el.numerator // el.denominator
            ok = isinstance(g, (int, float)) and not isinstance(g, bool) and g in (fl, whole)
            self.expect('C14/DATEDIF-d(date-times)' + early, ok, formula='DATEDIF(%s,%s,"d")' % (A, B), d_a=ta, d_b=tb, got=g, accepted=[fl, whole])
        self.rec.nt(('tod', ta.isoformat(), tb.isoformat(), how))

    def c_random(self, spec, rec):
        rnd = self.rng(spec)
        for _ in range(spec['n']):
            a, b = self.rdate(rnd), self.rdate(rnd)
            if rnd.random() < 0.15:
                b = a + datetime.timedelta(days=rnd.randint(-40, 40)) if ORD0 + 41 < a.toordinal() < ORDN - 41 else b
            A, B = dcall(a), dcall(b)
            self.components(a)
            h, mi, s = rnd.randint(0, 23), rnd.randint(0, 59), rnd.randint(0, 59)
            if rnd.random() < 0.3:
                h, mi, s = rnd.choice([0, 11, 12, 13, 23, h]), rnd.choice([0, 59, mi]), rnd.choice([0, 59, s])
            iso = a.isoformat() + 'T%02d:%02d:%02d' % (h, mi, s)
            for fn, exp in (('YEAR', a.year), ('MONTH', a.month), ('DAY', a.day), ('HOUR', h), ('MINUTE', mi), ('SECOND', s)):
                self.chk(fn + '(iso-text)', '%s("%s")' % (fn, iso), exp)
            if rnd.random() < 0.3:
                # ISO text with a fraction of a second (1-6 digits, also just below the next second): the components are the ones written
                frac = rnd.choice(['.5', '.25', '.123', '.999', '.9995', '.9996', '.99951', '.999999', '.000001', '.0004', '.4999', '.9', '.99'])
                for fn, exp in (('YEAR', a.year), ('MONTH', a.month), ('DAY', a.day), ('HOUR', h), ('MINUTE', mi), ('SECOND', s)):
                    self.chk(fn + '(iso-text-with-fraction)', '%s("%s%s")' % (fn, iso, frac), exp)
            if rnd.random() < 0.3 and 1901 <= a.year <= 9998:
                # the same text with a zone designator (Z, +02:00, -0530 ...): still the components that are written
                zone = rnd.choice(['Z', '+00:00', '+02:00', '-05:00', '+05:30', '-0330', '+1245', '-11:00', '+14:00'])
                for fn, exp in (('YEAR', a.year), ('MONTH', a.month), ('DAY', a.day), ('HOUR', h), ('MINUTE', mi), ('SECOND', s)):
                    self.chk(fn + '(iso-text-with-zone)', '%s("%s%s")' % (fn, iso, zone), exp)
            T = 'TIME(%d,%d,%d)' % (h, mi, s)
            self.chk('HOUR(TIME)', 'HOUR(%s)' % T, h)
            self.chk('MINUTE(TIME)', 'MINUTE(%s)' % T, mi)
            self.chk('SECOND(TIME)', 'SECOND(%s)' % T, s)
            yy = rnd.randint(0, 1899)
            self.chk('DATE-year-below-1900', 'YEAR(DATE(%d,%d,1))' % (yy, a.month), 1900 + yy)
            strad = (a < M1) != (b < M1)
            jan1 = ':one-date-is-1900-01-01-other-in-jan-feb-1900' if (a != b and a < M1 and b < M1 and J1 in (a, b)) else ''
            if not strad:
                self.chk('DAYS' + jan1, 'DAYS(%s,%s)' % (B, A), b.toordinal() - a.toordinal())
            if not strad and J1 not in (a, b):
                self.with_time_of_day(rnd, a, b)
            if a >= M1:
                # the same two dates written differently on each side (DATE(), ISO text, date-time text at midnight, serial number):
                # the calendar difference does not depend on the spelling - in particular a date and itself are 0 apart
                def spell(d):
                    return rnd.choice([dcall(d), '"%s"' % d.isoformat(), '"%sT00:00:00"' % d.isoformat(), '"%s 00:00"' % d.isoformat(), str(d.toordinal() - BASE_ORD)])
                for x, y, tag in ((a, a, 'same-day'), (a, b, 'two-days')):
                    if y < M1 or x > y:
                        continue
                    sx, sy = spell(x), spell(y)
                    if sx == sy:
                        continue
                    u = rnd.choice(['d', 'm', 'y', 'ym'])
                    months2 = (y.year - x.year) * 12 + y.month - x.month - (1 if y.day < x.day else 0)
                    exp2 = {'d': y.toordinal() - x.toordinal(), 'm': months2, 'y': y.year - x.year - (1 if (y.month, y.day) < (x.month, x.day) else 0), 'ym': months2 % 12}[u]
                    self.chk('DATEDIF-%s:%s-spelled-differently' % (u, tag), 'DATEDIF(%s,%s,"%s")' % (sx, sy, u), exp2)
                    self.chk('DAYS:%s-spelled-differently' % tag, 'DAYS(%s,%s)' % (sy, sx), y.toordinal() - x.toordinal())
            months = (b.year - a.year) * 12 + b.month - a.month - (1 if b.day < a.day else 0)
            for u in 'dmyDMY':
                if a > b:
                    exp = 'ERR:#NUM!'
                else:
                    exp = {'d': b.toordinal() - a.toordinal(), 'm': months, 'y': b.year - a.year - (1 if (b.month, b.day) < (a.month, a.day) else 0)}[u.lower()]
                if not (strad and u.lower() == 'd'):
                    self.chk('DATEDIF-' + u.lower() + (':start-after-end' if a > b else '') + (jan1 if (u.lower() == 'd' and a <= b) else ''), 'DATEDIF(%s,%s,"%s")' % (A, B, u), exp)
            self.chk('DATEDIF-ym' + (':start-after-end' if a > b else ''), 'DATEDIF(%s,%s,"%s")' % (A, B, rnd.choice(['ym', 'YM'])), months % 12 if a <= b else 'ERR:#NUM!')
            self.chk('WEEKDAY-other-type', 'WEEKDAY(%s,%s)' % (A, hx.lit(rnd.choice([0, 4, 5, 11, 17, -1, 10, 100, 2.5, 1.5, 3.5, 3.999, 0.5, 1.0000001, 2.25, 0.999]))), 'ERR:#NUM!')
            k = rnd.choice([0, 1, -1, 11, -11, 12, -12, 13, -13, 1200, -1200, 120000, -120000, rnd.randint(-2000, 2000), rnd.randint(-120000, 120000), rnd.randint(-30, 30)])
            tot = a.year * 12 + (a.month - 1) + k
            y2, m2 = divmod(tot, 12)
            m2 += 1
            if y2 < 1900 or y2 > 9999:
                exp = 'ERR:#NUM!'
            else:
                exp = datetime.datetime(y2, m2, min(a.day, calendar.monthrange(y2, m2)[1]))
            self.chk('EDATE' + (':outside-1900-9999' if exp == 'ERR:#NUM!' else (':clamped' if exp.day != a.day else '')), 'EDATE(%s,%s)' % (A, hx.lit(k)), exp)
            rec.sample({'a': str(a), 'b': str(b), 'months': k})

    def c_sentinels(self, spec, rec):
        self.chk('DAYS:one-date-is-1900-01-01-other-in-jan-feb-1900', 'DAYS(DATE(1900,1,10),DATE(1900,1,1))', 9)
        self.chk('DATEDIF-d:one-date-is-1900-01-01-other-in-jan-feb-1900', 'DATEDIF(DATE(1900,1,1),DATE(1900,2,10),"d")', 40)
        self.chk('DAYS', 'DAYS(DATE(1900,2,10),DATE(1900,1,2))', 39)
        self.chk('EDATE:clamped', 'EDATE(DATE(2020,1,31),1)', datetime.datetime(2020, 2, 29))
        self.chk('EDATE:clamped', 'EDATE(DATE(2019,1,31),1)', datetime.datetime(2019, 2, 28))
        self.chk('EDATE:clamped', 'EDATE(DATE(2100,1,31),1)', datetime.datetime(2100, 2, 28))
        self.chk('EDATE', 'EDATE(DATE(2020,3,15),-13)', datetime.datetime(2019, 2, 15))
        self.chk('EDATE:outside-1900-9999', 'EDATE(DATE(1900,1,15),-1)', 'ERR:#NUM!')
        self.chk('EDATE:outside-1900-9999', 'EDATE(DATE(9999,12,15),1)', 'ERR:#NUM!')
        self.chk('DATEDIF-m', 'DATEDIF(DATE(2020,1,31),DATE(2020,2,29),"m")', 0)
        self.chk('DATEDIF-m', 'DATEDIF(DATE(2020,1,29),DATE(2020,2,29),"m")', 1)
        self.chk('DATEDIF-y', 'DATEDIF(DATE(2020,2,29),DATE(2021,2,28),"y")', 0)
        self.chk('DATEDIF-y', 'DATEDIF(DATE(2020,2,29),DATE(2021,3,1),"y")', 1)
        self.chk('WEEKDAY-type-1', 'WEEKDAY(DATE(2023,1,1))', 1)
        self.chk('YEAR(DATE)', 'YEAR(DATE(2100,2,28))', 2100)
        self.chk('DAY(serial)', 'DAY(61)', 1)
        self.chk('MONTH(serial)', 'MONTH(61)', 3)

    def judge(self, merged, tier):
        if tier == 'thorough' and merged['counts'].get('days_enumerated', 0) != ORDN - ORD0 + 1:
            return ['day sweep incomplete']
        return []

    def extra(self, merged):
        n = merged['counts'].get('days_enumerated', 0)
        return {'exhaustive': n == ORDN - ORD0 + 1, 'exhaustive_subspace': 'thorough tier: YEAR/MONTH/DAY/WEEKDAY laws on every valid date 1900-01-01..9999-12-31'} if n else {}
