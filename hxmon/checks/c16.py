"""C16 - real-valued math and PV return the mathematically defined value or an error.

Boundary recorder vs a 40-digit mpmath reference evaluated on the exact value of the argument; identities are
evaluated as formulas; PV is judged by the residual of the annuity equation in high precision.
"""
import math
from fractions import Fraction as Fr

from .common import FormulaCheck
from ..oracle import is_num, finite, BAND
from .. import hx

PI = None


def mp():
    import mpmath
    mpmath.mp.dps = 40
    return mpmath


def mpf(x):
    m = mp()
    if isinstance(x, bool):
        return m.mpf(int(x))
    if isinstance(x, int):
        return m.mpf(x)
    f = Fr(x)
    return m.mpf(f.numerator) / m.mpf(f.denominator)


VALUE_BAND = 1e-11     # 'within floating-point rounding': ~100x the largest deviation measured on the pinned tree (ACOSH near 1: 1e-13)


def close_mp(x, ref, rel=VALUE_BAND):
    if not finite(x):
        return False
    m = mp()
    return abs(mpf(x) - ref) <= m.mpf(rel) * max(1, abs(ref))


# name -> (reference, domain predicate, argument generator tag)
def table():
    m = mp()
    return {
        'ABS': (lambda x: abs(x), lambda x: True, 'any'),
        'SQRT': (m.sqrt, lambda x: x >= 0, 'any'),
        'EXP': (m.exp, lambda x: True, 'exp'),
        'LN': (m.log, lambda x: x > 0, 'any'),
        'LOG10': (m.log10, lambda x: x > 0, 'any'),
        'RADIANS': (lambda x: x * m.pi / 180, lambda x: True, 'any'),
        'DEGREES': (lambda x: x * 180 / m.pi, lambda x: True, 'any'),
        'SIN': (m.sin, lambda x: True, 'trig'), 'COS': (m.cos, lambda x: True, 'trig'),
        'TAN': (m.tan, lambda x: True, 'trigpole'), 'COT': (m.cot, lambda x: x != 0, 'trigpole'),
        'ASIN': (m.asin, lambda x: -1 <= x <= 1, 'unit'), 'ACOS': (m.acos, lambda x: -1 <= x <= 1, 'unit'),
        'ATAN': (m.atan, lambda x: True, 'any'),
        'SINH': (m.sinh, lambda x: True, 'exp'), 'COSH': (m.cosh, lambda x: True, 'exp'), 'TANH': (m.tanh, lambda x: True, 'any'),
        'ASINH': (m.asinh, lambda x: True, 'any'), 'ACOSH': (m.acosh, lambda x: x >= 1, 'ge1'),
        'ATANH': (m.atanh, lambda x: -1 < x < 1, 'unit'), 'ACOTH': (m.acoth, lambda x: abs(x) > 1, 'ge1'),
    }


class Check(FormulaCheck):
    ID = 'C16'
    TITLE = 'Real-valued math and PV return the mathematically defined value or an error'
    TECHNIQUE = 'boundary recorder on Parser.parse vs 40-digit mpmath reference; identities as formulas; annuity-equation residual'
    RULE = ('case = one call of an elementary function on a grid point across its domain boundary or a random real over magnitudes 1e-8..1e8 '
            '(|x|<=700 for EXP/SINH/COSH; points within 1e-6 of a singularity excluded), as number, numeric text or logical; or one identity formula; '
            'or one PV(rate,periods,payment,future,type); or one RAND/RANDBETWEEN draw. non-trivial = compared with the reference / identity / residual; '
            'distinct = distinct (function, arguments).')
    ASSUMPTIONS = ('results beyond 1.79e308 (overflow) are not judged; band 1e-9 of max(1,|value|) and, wherever the value is an ordinary double, 1e-9 of the value itself',
                   'ACOT on non-positive arguments is judged only through COT(ACOT(x)) = x and |ACOT(x)| <= pi',
                   'outside the domain or for non-numeric text any error code is accepted, never a number',
                   'PV: where (1+r)^n overflows/underflows a double an error is not judged, a number is; RANDBETWEEN with a <= b and an integer between them')

    def plan(self, tier, seed):
        q = tier == 'quick'
        specs = [{'campaign': 'sentinels'}]
        for i in range(16):
            specs.append({'campaign': 'functions', 'seed': seed, 'n': 220 if q else 4000, 'i': i})
            specs.append({'campaign': 'identities', 'seed': seed, 'n': 700 if q else 12000, 'i': i})
            specs.append({'campaign': 'pv', 'seed': seed, 'n': 1500 if q else 25000, 'i': i})
        specs.append({'campaign': 'random', 'seed': seed, 'n': 10000 if q else 200000})
        return specs

    # ------------------------------------------------------------------
    def arg(self, rnd, tag):
        k = rnd.random()
        s = rnd.choice([1, -1])
        if rnd.random() < 0.05:
            # whole numbers beyond 2**53 that are NOT doubles, handed over as the ints they are (a long literal, a host's int)
            return s * rnd.choice([2 ** 53 + 1, 12345678901234567, 10 ** 17 + 3, 3 ** 40 + 2, rnd.randint(2 ** 53, 10 ** 24) | 1, 10 ** 22 + 7])
        if rnd.random() < 0.12:
            # 'over many magnitudes': all of them, from the subnormals to the largest doubles
            return s * 10 ** rnd.uniform(-320, 308)
        if rnd.random() < 0.1:
            # the doubles right beside the edge of a domain (1..8 ulps on either side of -1, 0, 1): in or out is decided there, not a casual epsilon away
            import math
            x = float(rnd.choice([1, -1, 0, 1, -1]))
            for _ in range(rnd.choice([1, 1, 2, 3, 4, 8])):
                x = math.nextafter(x, math.inf if s > 0 else -math.inf)
            return x
        if tag == 'unit':
            return rnd.choice([-1, 1, 0, 0.5, -0.5, 1 - 1e-9, -1 + 1e-9, 1.0000001, -1.0000001, 2, -3, rnd.uniform(-1, 1), rnd.uniform(-1.2, 1.2), s * 10 ** rnd.uniform(-8, 0)])
        if tag == 'ge1':
            return rnd.choice([1, -1, 1.0000001, -1.0000001, 0.5, 0, 2, -2, 1 + 10 ** rnd.uniform(-7, 8), -(1 + 10 ** rnd.uniform(-7, 8)), rnd.uniform(-3, 3), 10 ** rnd.uniform(0, 8)])
        if tag == 'exp':
            return rnd.choice([0, 1, -1, 700, -700, rnd.uniform(-700, 700), rnd.uniform(-5, 5), s * 10 ** rnd.uniform(-8, 2.8)])
        if tag in ('trig', 'trigpole'):
            return rnd.choice([0, 1, -1, 3, 0.5, rnd.uniform(-20, 20), rnd.uniform(-1000, 1000), s * 10 ** rnd.uniform(-8, 8), rnd.randint(-10 ** 6, 10 ** 6)])
        if k < 0.12:
            # just beside 1 and beside powers of ten / two (far more than an ulp, far less than a casual epsilon): where a result is just beside a whole number
            return rnd.choice([1.0, 10.0 ** rnd.randint(-3, 6), 2.0 ** rnd.randint(-3, 10)]) * (1 + s * 10 ** rnd.uniform(-13, -7))
        return rnd.choice([0, 1, -1, 2, 0.5, 1e-8, 1e8, -1e8, rnd.randint(-1000, 1000), s * 10 ** rnd.uniform(-8, 8), rnd.uniform(-10, 10), rnd.uniform(0, 1)])

    def judge_call(self, fn, x, ref_fn, dom, how='number'):
        m = mp()
        rec = self.rec
        if how == 'text':
            if not isinstance(x, (int, float)) or isinstance(x, bool) or x != x:
                return
            # numeric text in the spellings python/excel hosts produce: repr, %e, %E, fixed, explicit sign, surrounding spaces
            forms = [repr(x), '%e' % x, '%.10E' % x, '%.17g' % x, ('+' if x >= 0 else '') + repr(x), ' ' + repr(x) + ' ', '%.6f' % x]
            v = forms[self.textform % len(forms)]
            self.textform += 1
            try:
                x = float(v) if ('.' in v or 'e' in v.lower()) else int(v)
            except ValueError:
                return
            self.rec.cov('numeric_text_forms', 'exp+' if 'e+' in v.lower() else ('exp-' if 'e-' in v.lower() else ('sign' if v.strip()[:1] == '+' else ('spaces' if v != v.strip() else 'plain'))))
        elif how == 'logical':
            v = bool(x)
            x = int(v)
        else:
            v = x
        g = self.ev('%s(v_x)' % fn, v_x=v)
        rec.nt((fn, repr(v)))
        X = mpf(x)
        if isinstance(x, int) and not isinstance(x, bool) and abs(x) > 2 ** 53 and fn in ('SIN', 'COS', 'TAN', 'COT', 'SEC', 'CSC'):
            # a periodic function of a whole number that no double holds: the argument is rounded before anything is computed, and
            # the function is not continuous enough for that to be 'floating-point rounding' of the result
            rec.count('skipped.periodic-function-of-an-integer-beyond-2**53')
            return
        if fn in ('TAN', 'COT'):
            # distance to the nearest pole
            pole = m.pi / 2 if fn == 'TAN' else 0
            d = abs(m.frac((X - pole) / m.pi + m.mpf(0.5)) - m.mpf(0.5)) * m.pi
            if d < 1e-6 and not (fn == 'COT' and x == 0):
                rec.count('skipped.near-singularity')
                return
        rec.cov('function_x_kind', (fn, how, 'in' if dom(x) else 'out'))
        if not dom(x):
            self.expect('C16/%s:number-outside-domain' % fn, self.is_err(g), x=v, got=g)
            return
        ref = ref_fn(X)
        if abs(ref) > m.mpf('1.79e308'):
            rec.count('skipped.overflow')
            return
        ok = self.expect('C16/%s:value%s' % (fn, '' if how == 'number' else ':' + how), close_mp(g, ref), x=v, got=g, expected=float(ref))
        # 'to within floating-point rounding' is a RELATIVE statement wherever the value is an ordinary double: a result of 0.0 for a
        # true 1e-17 is not within rounding of it, however small the difference
        if ok and m.mpf('1e-300') <= abs(ref) <= m.mpf('1.79e308'):
            self.expect('C16/%s:value-not-within-rounding-relative-to-its-size' % fn, abs(mpf(g) - ref) <= m.mpf('1e-9') * abs(ref), x=v, got=g, expected=float(ref))
        if ok:
            dev = float(abs(mpf(g) - ref) / max(1, abs(ref)))
            if dev > self.maxdev.get(fn, 0.0):
                self.maxdev[fn] = dev

    def c_functions(self, spec, rec):
        rnd = self.rng(spec)
        self.textform = spec['i']
        self.maxdev = {}
        rec.series['maxdev.%d' % spec['i']] = self.maxdev
        T = table()
        m = mp()
        for _ in range(spec['n']):
            for fn, (ref_fn, dom, tag) in T.items():
                x = self.arg(rnd, tag)
                self.judge_call(fn, x, ref_fn, dom)
                k = rnd.random()
                if k < 0.18:
                    self.judge_call(fn, x, ref_fn, dom, 'text')
                    self.judge_call(fn, self.arg(rnd, 'any') * rnd.choice([1, 1e10, 1e17, 1e-12]), ref_fn, dom, 'text')
                elif k < 0.2:
                    self.judge_call(fn, rnd.choice([0, 1]), ref_fn, dom, 'logical')
                elif k < 0.25:
                    t = rnd.choice(['abc', '', 'one', '1,5', '#', 'i', 'j', '-i', '2i', '3+4i', '(1)', '(3+4j)', 'nan', 'inf', '-inf', 'infinity', 'NaN', '1_000', '0x10', '1e', 'e5', '--1',
                                    '1e999', '1 2', '$5', '5%', 'TRUE', '#N/A', '1/2'])
                    g = self.ev('%s(v_x)' % fn, v_x=t)
                    self.expect('C16/%s:non-numeric-text-yields-a-number' % fn, self.is_err(g), x=t, got=g)
            if rnd.random() < 0.15:
                t = rnd.choice(['i', '3+4i', '2j', 'nan', 'inf', 'abc', '1_0', '(1)', '', ' ', '""', 'TRUE ', '-', '.', 'e'])
                for f in ('PV(0,10,v_t)', 'PV(v_t,10,1)', 'PV(0.05,v_t,1)', 'PV(0.05,10,1,v_t)', 'PV(0.05,10,1,0,v_t)', 'PV(0,10,1,v_t,0)', 'PV(0.05,10,1,v_t,v_t)', 'POWER(v_t,2)', 'POWER(2,v_t)', 'LOG(v_t,2)', 'ATAN2(v_t,1)', 'ATAN2(1,v_t)', 'RADIANS(v_t)', 'DEGREES(v_t)'):
                    g = self.ev(f, v_t=t)
                    self.expect('C16/%s:non-numeric-text-yields-a-number' % f.split('(')[0], self.is_err(g), formula=f, text=t, got=g)
            if rnd.random() < 0.1:
                # results that are finite but huge (between 1e300 and the largest double) are ordinary results
                for f, x, ref in (('EXP(v_x)', rnd.uniform(700, 709.78), None), ('COSH(v_x)', rnd.uniform(700, 710.47), None), ('SINH(v_x)', -rnd.uniform(700, 710.47), None),
                                  ('ABS(v_x)', -rnd.uniform(1e300, 1.79e308), None), ('POWER(10,v_x)', rnd.uniform(300, 308.25), None), ('SQRT(v_x)', rnd.uniform(1e300, 1.79e308), None),
                                  ('ABS(v_x)', '1.5e308', None), ('RADIANS(v_x)', rnd.uniform(1e305, 1.79e308), None)):
                    g = self.ev(f, v_x=x)
                    X = mpf(float(x))
                    refv = {'EXP': m.exp, 'COSH': m.cosh, 'SINH': m.sinh, 'ABS': abs, 'SQRT': m.sqrt, 'RADIANS': m.radians}.get(f.split('(')[0], lambda v: m.mpf(10) ** v)(X)
                    if abs(refv) < m.mpf('1.79e308'):
                        self.expect('C16/%s:value:just-below-the-largest-double' % f.split('(')[0], close_mp(g, refv), x=x, got=g, expected=float(refv))
                        rec.nt(('huge', f, x))
            # two-argument functions
            x, b = self.arg(rnd, 'any'), rnd.choice([2, 10, 0.5, 1, 0, -2, 3, math.e, rnd.uniform(0.01, 20)])
            if b > 0 and b != 1 and rnd.random() < 0.3:
                x = float(b) ** rnd.randint(-3, 8) * (1 + rnd.choice([1, -1]) * 10 ** rnd.uniform(-13, -7))       # just beside a power of the base
            g = self.ev('LOG(v_x,v_b)', v_x=x, v_b=b)
            rec.nt(('LOG', x, b))
            if x > 0 and b > 0 and b != 1:
                self.expect('C16/LOG:value', close_mp(g, m.log(mpf(x)) / m.log(mpf(b))), x=x, base=b, got=g)
            else:
                self.expect('C16/LOG:number-outside-domain', self.is_err(g), x=x, base=b, got=g)
            if x > 0:
                g = self.ev('LOG(v_x)', v_x=x)
                self.expect('C16/LOG:default-base-10', close_mp(g, m.log10(mpf(x))), x=x, got=g)
            base = rnd.choice([2, -2, 0, 0.5, 10, -8, rnd.uniform(-10, 10), rnd.randint(-9, 9)])
            p = rnd.choice([0, 1, 2, -1, 0.5, 3, -2, 1 / 3.0, rnd.randint(-8, 8), rnd.uniform(-5, 5)])
            g = self.ev('POWER(v_x,v_p)', v_x=base, v_p=p)
            rec.nt(('POWER', base, p))
            exists = not ((base == 0 and p < 0) or (base < 0 and p != int(p)))
            if exists:
                ref = mpf(base) ** mpf(p) if not (base == 0 and p == 0) else m.mpf(1)
                if abs(ref) < m.mpf(10) ** 300:
                    self.expect('C16/POWER:value', close_mp(g, ref), x=base, power=p, got=g)
            else:
                self.expect('C16/POWER:number-outside-domain', self.is_err(g), x=base, power=p, got=g)
            # ATAN2(x, y) = angle of the point (x, y)
            px, py = rnd.choice([0, 0, 1, -1, rnd.uniform(-5, 5), rnd.randint(-3, 3)]), rnd.choice([0, 0, 1, -1, rnd.uniform(-5, 5), rnd.randint(-3, 3)])
            g = self.ev('ATAN2(v_x,v_y)', v_x=px, v_y=py)
            rec.nt(('ATAN2', px, py))
            if px == 0 and py == 0:
                self.expect('C16/ATAN2:origin-not-#DIV/0!', g == 'ERR:#DIV/0!', x=px, y=py, got=g)
            else:
                axis = ':on-an-axis' if (px == 0 or py == 0) else ''
                self.expect('C16/ATAN2:angle-of-point' + axis, close_mp(g, m.atan2(mpf(py), mpf(px))), x=px, y=py, got=g, expected=float(m.atan2(mpf(py), mpf(px))))
            # the same point with its coordinates spelled as the other accepted kinds of number (numeric text, logicals, float zero)
            def spell(v):
                alts = [v, float(v)]
                if v == int(v):
                    alts += [str(int(v)), '%s.0' % int(v), ' %d ' % int(v)]
                    if v in (0, 1):
                        alts.append(bool(v))
                    if v == 0:
                        alts += ['0.00', '0e0']
                        if px == 0 and py == 0:
                            alts += ['-0', -0.0]      # a negative zero is a zero (off the origin it would only pick the other name, -pi, of the angle pi)
                else:
                    alts.append(repr(v))
                return rnd.choice(alts)
            sx, sy = spell(px), spell(py)
            g2 = self.ev('ATAN2(v_x,v_y)', v_x=sx, v_y=sy)
            rec.nt(('ATAN2-spelled', repr(sx), repr(sy)))
            same = (g2 == g) or (finite(g) and finite(g2) and abs(g - g2) <= 1e-12)
            self.expect('C16/ATAN2:depends-on-how-the-numbers-are-spelled' + (':origin' if (px == 0 and py == 0) else ''), same, x=sx, y=sy, got=g2, with_plain_numbers=g)
            # ACOT
            x = self.arg(rnd, 'any')
            g = self.ev('ACOT(v_x)', v_x=x)
            rec.nt(('ACOT', x))
            if x > 0:
                self.expect('C16/ACOT:value', close_mp(g, m.acot(mpf(x))), x=x, got=g)
            else:
                ok = finite(g) and abs(g) <= math.pi + 1e-9
                if ok:
                    G = mpf(g)
                    s, c = m.sin(G), m.cos(G)
                    # cot(g) = x  <=>  cos(g) = x sin(g)
                    ok = abs(c - mpf(x) * s) <= m.mpf(1e-9) * max(1, abs(mpf(x)))
                self.expect('C16/ACOT:COT(ACOT(x))=x' + (':zero' if x == 0 else ''), ok, x=x, got=g)
            g = self.ev('PI()')
            self.expect('C16/PI', close_mp(g, m.pi, 1e-15), got=g)
            rec.sample({'function': 'ATAN2', 'x': px, 'y': py})

    def c_identities(self, spec, rec):
        rnd = self.rng(spec)
        for _ in range(spec['n']):
            x = rnd.choice([rnd.uniform(-20, 20), rnd.uniform(-1000, 1000), rnd.uniform(-2, 2)])
            y = abs(rnd.choice([rnd.uniform(0.001, 100), 10 ** rnd.uniform(-6, 6)])) + 1e-9
            b = rnd.choice([2, 3, 10, 0.5, rnd.uniform(1.1, 20)])
            tanx = math.tan(x)
            cases = [('sin2+cos2=1', 'SIN(v_x)*SIN(v_x)+COS(v_x)*COS(v_x)', 1, 1),
                     ('EXP(LN(x))=x', 'EXP(LN(v_y))', y, y), ('LOG(x,b)=LN(x)/LN(b)', 'LOG(v_y,v_b)-LN(v_y)/LN(v_b)', 0, max(1, abs(math.log(y) / math.log(b))))]
            if abs(math.cos(x)) > 1e-4:
                cases.append(('TAN=SIN/COS', 'TAN(v_x)-SIN(v_x)/COS(v_x)', 0, max(1, abs(tanx))))
            if abs(math.sin(x)) > 1e-4 and abs(math.cos(x)) > 1e-4:
                cases.append(('COT=1/TAN', 'COT(v_x)-1/TAN(v_x)', 0, max(1, abs(1 / tanx))))
            self.e.bind(v_x=x, v_y=y, v_b=b)
            for name, f, ref, scale in cases:
                g = self.ev(f)
                self.expect('C16/identity:' + name, finite(g) and abs(g - ref) <= 1e-9 * scale, formula=f, x=x, y=y, b=b, got=g, expected=ref)
                rec.nt((name, x, y, b))
            for fn, inv, lo, hi in (('SIN', 'ASIN', -1.5, 1.5), ('COS', 'ACOS', 0.01, 3.1), ('TAN', 'ATAN', -1.5, 1.5), ('SINH', 'ASINH', -10, 10),
                                    ('COSH', 'ACOSH', 0.01, 10), ('TANH', 'ATANH', -5, 5), ('COT', 'ACOT', 0.01, 1.5), ('EXP', 'LN', -50, 50)):
                z = rnd.uniform(lo, hi)
                g = self.ev('%s(%s(v_z))' % (inv, fn), v_z=z)
                # the inverse is ill-conditioned where the function is flat: band relative to the conditioning
                tol = 1e-6 * max(1, abs(z))
                self.expect('C16/inverse-undoes-function:%s(%s(x))' % (inv, fn), finite(g) and abs(g - z) <= tol, z=z, got=g)
                rec.nt((inv, fn, z))
            rec.sample({'identity': 'TAN(v_x)-SIN(v_x)/COS(v_x)', 'v_x': x})

    def c_pv(self, spec, rec):
        rnd = self.rng(spec)
        m = mp()
        for _ in range(spec['n']):
            r = rnd.choice([0, 0.05, 0.5, -0.5, 1e-6, 1, 0.0025, rnd.uniform(-0.9, 1), rnd.uniform(0, 0.2)])
            n = rnd.choice([1, 12, 360, 600, rnd.randint(1, 600), 2.5, 0])
            pmt = rnd.choice([0, -100, 250.5, rnd.uniform(-1000, 1000)])
            fv = rnd.choice([0, 1000, -5000.25, rnd.uniform(-10 ** 5, 10 ** 5)])
            ty = rnd.choice([0, 1])
            if rnd.random() < 0.12:
                # horizons over which the growth factor (1+r)^n leaves the doubles altogether, at either end
                r, n = rnd.choice([-0.5, -0.9, -0.25, 0.05, 1, 0.5, rnd.uniform(-0.9, -0.1)]), rnd.choice([2000, 5000, 20000, -2000, -20000, 100000, rnd.randint(1100, 9000)])
            form = rnd.random()
            if form < 0.6:
                f = 'PV(v_r,v_n,v_q,v_f,v_t)'
            elif form < 0.8:
                f, ty = 'PV(v_r,v_n,v_q,v_f)', 0
            else:
                f, ty, fv = 'PV(v_r,v_n,v_q)', 0, 0
            pv = self.ev(f, v_r=r, v_n=n, v_q=pmt, v_f=fv, v_t=ty)
            rec.nt(('PV', r, n, pmt, fv, ty, f))
            R, N, P, F = mpf(r), mpf(n), mpf(pmt), mpf(fv)
            g = (1 + R) ** N
            extreme = g > m.mpf(10) ** 300 or g < m.mpf(10) ** -300
            if extreme:
                # the library may well give up here (an error is not judged); but a NUMBER it returns is a present value like any other
                # and has to satisfy the equation.  Only the band in which g is a subnormal double (few significant bits) is left out.
                if not finite(pv) or m.mpf(10) ** -330 < g < m.mpf(10) ** -300:
                    rec.count('skipped.pv-overflow')
                    continue
                rec.count('pv_numbers_judged_where_the_growth_factor_leaves_the_doubles')
            if not self.expect('C16/PV:not-a-number', finite(pv), rate=r, periods=n, payment=pmt, future=fv, type=ty, got=pv):
                continue
            V = mpf(pv)
            if r == 0:
                terms = [V, P * N, F]
            else:
                terms = [V * g, P * (1 + R * ty) * (g - 1) / R, F]
            res = sum(terms)
            scale = max([abs(t) for t in terms] + [1])
            self.expect('C16/PV:annuity-equation-residual' + (':rate-0' if r == 0 else '') + (':growth-factor-beyond-the-doubles' if extreme else ''), abs(res) <= m.mpf(1e-9) * scale,
                        rate=r, periods=n, payment=pmt, future=fv, type=ty, pv=pv, residual=float(res), scale=float(scale))
            rec.sample({'formula': f, 'rate': r, 'periods': n, 'payment': pmt, 'future': fv, 'type': ty})

    def c_random(self, spec, rec):
        rnd = self.rng(spec)
        seen = set()
        for _ in range(spec['n']):
            g = self.ev('RAND()')
            self.expect('C16/RAND-outside-[0,1)', is_num(g) and 0 <= g < 1, got=g)
            seen.add(g)
            a = rnd.randint(-1000, 1000)
            b = a + rnd.choice([0, 1, 2, 10, rnd.randint(0, 10 ** 6)])
            g = self.ev('RANDBETWEEN(v_a,v_b)', v_a=a, v_b=b)
            self.expect('C16/RANDBETWEEN-not-an-integer-in-[a,b]', is_num(g) and g == int(g) and a <= g <= b, a=a, b=b, got=g)
            # bounds that are not whole numbers: still an integer of [a, b] (there is one when ceil(a) <= floor(b))
            fa, fb = a + rnd.choice([0.5, 0.25, -0.5, 0.999, 0]), b + rnd.choice([0.5, 0.75, 1.5, 0.001, 0]) + 1
            g = self.ev('RANDBETWEEN(v_a,v_b)', v_a=fa, v_b=fb)
            self.expect('C16/RANDBETWEEN-not-an-integer-in-[a,b]:bounds-not-whole', is_num(g) and g == int(g) and fa <= g <= fb, a=fa, b=fb, got=g)
            rec.nt(('rb', a, b))
        self.expect('C16/RAND-not-random', len(seen) > spec['n'] // 2, distinct=len(seen))
        # fault injection at the random source: whatever the generator draws - also its extremes 0.0 and 1-2**-53, which no sampling run
        # will ever see - RAND stays in [0,1) and RANDBETWEEN in [a,b]
        import random as stdlib_random
        real = (stdlib_random.random, stdlib_random.uniform)
        try:
            for u in (0.0, 1 - 2.0 ** -53, 2.0 ** -53, 0.5, 1 - 2.0 ** -52, 2.0 ** -1074, 0.9999999999999999):
                stdlib_random.random = lambda _u=u: _u
                stdlib_random.uniform = lambda a, b, _u=u: a + (b - a) * _u
                g = self.ev('RAND()')
                self.expect('C16/RAND-outside-[0,1):generator-at-an-extreme', is_num(g) and 0 <= g < 1, generator_draw=u, got=g)
                for a, b in ((1, 6), (0, 0), (-5, 5), (0, 1), (10, 10 ** 9)):
                    g = self.ev('RANDBETWEEN(v_a,v_b)', v_a=a, v_b=b)
                    self.expect('C16/RANDBETWEEN-not-an-integer-in-[a,b]:generator-at-an-extreme', is_num(g) and g == int(g) and a <= g <= b, a=a, b=b, generator_draw=u, got=g)
                rec.nt(('rand-extreme', u))
        finally:
            stdlib_random.random, stdlib_random.uniform = real
        rec.sample({'formula': 'RANDBETWEEN(v_a,v_b)'})

    def extra(self, merged):
        worst = {}
        for k, v in merged['series'].items():
            if k.startswith('maxdev.'):
                for fn, d in v.items():
                    worst[fn] = max(worst.get(fn, 0.0), d)
        return {'largest_accepted_deviation_relative_to_max(1,|ref|)': {k: float('%.3g' % v) for k, v in sorted(worst.items())}}

    def c_sentinels(self, spec, rec):
        ev = self.ev
        self.textform = 0
        self.maxdev = {}
        for f, ref in (('SQRT("1e+20")', 1e10), ('ABS("6.02E+23")', 6.02e23), ('LN("1e-7")', math.log(1e-7)), ('ABS("+3")', 3), ('ABS(" 12 ")', 12), ('POWER("1E+2","5e-1")', 10),
                       ('PV("5e-2","1e+1","-1e+2")', 772.1734929184813)):
            g = ev(f)
            self.expect('C16/numeric-text-not-accepted-as-number', finite(g) and abs(g - ref) <= 1e-9 * max(1, abs(ref)), formula=f, got=g, expected=ref)
        g = ev('ATAN2(1,0)')
        self.expect('C16/ATAN2:angle-of-point:on-an-axis', finite(g) and abs(g) < 1e-12, formula='ATAN2(1,0)', got=g)
        g = ev('ATAN2(-1,0)')
        self.expect('C16/ATAN2:angle-of-point:on-an-axis', finite(g) and abs(g - math.pi) < 1e-12, formula='ATAN2(-1,0)', got=g)
        g = ev('ATAN2(0,0)')
        self.expect('C16/ATAN2:origin-not-#DIV/0!', g == 'ERR:#DIV/0!', formula='ATAN2(0,0)', got=g)
        g = ev('ACOT(0)')
        self.expect('C16/ACOT:COT(ACOT(x))=x:zero', finite(g) and abs(abs(g) - math.pi / 2) < 1e-12, formula='ACOT(0)', got=g)
        for f in ('SQRT(-1)', 'LN(0)', 'LOG(8,1)', 'LOG(8,-2)', 'POWER(-8,0.5)', 'POWER(0,-1)', 'ACOS(2)', 'ATANH(1)', 'ACOTH(0.5)', 'ACOSH(0.5)', 'SIN("abc")', 'COT(0)', 'ACOTH(1)'):
            g = ev(f)
            self.expect('C16/%s:number-outside-domain' % f.split('(')[0], self.is_err(g), formula=f, got=g)
        for f, ref in (('SIN("1")', math.sin(1)), ('SIN(TRUE)', math.sin(1)), ('LOG(8,2)', 3), ('POWER(2,0.5)', math.sqrt(2)), ('PV(0.05,10,-100)', 772.1734929184813),
                       ('PV(0,10,-100,50)', 950), ('EXP(1)', math.e)):
            g = ev(f)
            self.expect('C16/sentinel-value', finite(g) and abs(g - ref) <= 1e-9 * max(1, abs(ref)), formula=f, got=g, expected=ref)
        rec.nt('a')
        rec.nt('b')
