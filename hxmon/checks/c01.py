"""C01 - parse() is total: it always returns a well-formed result/error record, in bounded time.

Monitors: (i) the icontract post-condition on the real Parser.parse (contracts.py) judging every record produced by any
workload; (ii) the harness' own try/except BaseException around every call (nothing may escape); (iii) the sys.monitoring
step counter: every call must finish within B = 20000 + 400*len(formula) + 200*host-leaves line events of hotxlfp/ply code;
(iv) a generous wall watchdog whose firing is only *inconclusive*.
Workloads: token soups / mutated valid formulas / arbitrary Unicode; every supported function at arities 0..4 over a pool
holding a value of every type; host callbacks that raise or return hostile values at every invocation point; the
repository's own tests re-run under the contract layer.
"""
import datetime
import io
import json
import os
import re
import subprocess
import sys
import tempfile

from ..oracle import canon
from ..runner import BaseCheck, WatchdogTimeout
from ..contracts import record_problem
from ..gen import exprs as G
from .. import env, hx, probe
from . import c08 as C08, c10 as C10

CASE_WALL = 20.0      # CPU seconds (ITIMER_VIRTUAL), not wall-clock


class Hostile(object):
    """every special method raises"""
    def _boom(self, *a, **k):
        raise RuntimeError('hostile object')
    __str__ = __repr__ = __eq__ = __ne__ = __lt__ = __gt__ = __le__ = __ge__ = __bool__ = __len__ = __iter__ = __hash__ = _boom
    __add__ = __radd__ = __sub__ = __rsub__ = __mul__ = __rmul__ = __truediv__ = __rtruediv__ = __neg__ = __int__ = __float__ = __index__ = _boom
    __getitem__ = __contains__ = __call__ = __abs__ = __round__ = __floor__ = __ceil__ = __trunc__ = __format__ = __pow__ = __rpow__ = __mod__ = __rmod__ = _boom


class BadStr(Exception):
    """an exception whose str() itself raises"""
    def __str__(self):
        raise RuntimeError('str() of this exception raises')
    __repr__ = __str__


def pool():
    e = hx.error_objects()
    vals = [0, 1, -1, 3, -7, 255, 1000, 3999, 4000, 5000, 0.5, -0.5, 2.5, 1e-9, 1234.5678, float('nan'), float('inf'), True, False, None,
            'abc', '', '12', '-2.5', '2020-02-29', 'FF', 'MCMXC', '>2', 'a*', u'你好é', ',',
            datetime.datetime(1900, 1, 1), datetime.datetime(9999, 12, 31), datetime.datetime(2020, 2, 29, 13, 45, 10),
            [1, 2, 3], [[1, 2], [3, 4]], [], [1, 'a', None, True], 3 + 4j, Hostile(), (1, 2), {'k': 1}, b'by']
    vals += [e[c] for c in ('#NULL!', '#DIV/0!', '#VALUE!', '#REF!', '#NAME?', '#NUM!', '#N/A', '#GETTING_DATA', '#ERROR!')]
    XL = hx.errors().XLError
    # error objects that are NOT the nine shared singletons (a host may build its own)
    vals += [XL('#CIRCULAR!'), XL(''), XL('#N/A', 'detail'), XL(), XL('#N/A'), type('HostXL', (XL,), {'__str__': lambda self: 'host says no'})('x')]
    # ... and host-built ones that spell a canonical code and carry more (a reason, a cell): what the host builds is the host's object
    vals += [XL('#ERROR!', 'reason'), XL('#VALUE!', 1, 2), XL('#DIV/0!', {'cell': 'B2'})]
    # "a value of every type": the types a Python host has lying around besides the spreadsheet ones (appended, so CORE indices stay put)
    import collections, decimal, enum, fractions
    Colour = enum.IntEnum('Colour', 'RED GREEN')
    vals += [datetime.date(2020, 2, 29), datetime.time(13, 45), datetime.timedelta(days=2, hours=3), decimal.Decimal('2.50'), fractions.Fraction(1, 3), range(3), bytearray(b'ab'),
             frozenset([1, 2]), {1, 2}, type('Label', (str,), {})('AbC'), Colour.GREEN, type('Money', (float,), {})(2.5), -0.0, collections.deque([1, 2]), iter([1, 2, 3]),
             type('Num', (object,), {'__float__': lambda self: 2.5, '__int__': lambda self: 2, '__index__': lambda self: 2})(), type('Empty', (object,), {}), len, Ellipsis,
             collections.OrderedDict(a=1), memoryview(b'xy'), (), ((1, 2), (3, 4)), [(1, 2), [3, (4,)]], 'x' * 300]
    # values that lie about, or refuse to tell, what they are (proxies, mocks, lazy objects): isinstance() consults __class__
    import weakref

    def boom(self, *a, **k):
        raise ValueError('this object does not tell')
    vals += [type('NoClass', (object,), {'__class__': property(boom)})(), type('ClaimsText', (object,), {'__class__': property(lambda self: str)})(),
             type('ClaimsError', (object,), {'__class__': property(lambda self: XL)})(), weakref.proxy(e['#N/A']), type('TextNoHash', (str,), {'__hash__': boom})('#N/A'),
             type('TextNoEq', (str,), {'__eq__': boom, '__hash__': lambda self: 1})('abc'), type('NoDict', (object,), {'__getattribute__': boom})()]
    return vals


def cyclic_values():
    """lists that contain themselves, directly and through a row (a host's object graph is the host's): walking them must end"""
    cyc = [1, 2]
    cyc.append(cyc)
    row = [3]
    grid = [[1, row], [row, 4]]
    row.append(grid)
    return [cyc, grid]


CORE = [0, 1, 4, 6, 9, 10, 13, 15, 16, 17, 19, 20, 21, 22, 24, 27, 30, 31, 33, 34, 35, 37, 38, 39, 44, 49]      # indices into pool()

FRAGMENTS = ['1', '2', '12', '0', '.5', '1.5', '007', '%', '^', '+', '-', '*', '/', '&', '=', '<', '>', '<=', '>=', '<>', '(', ')', '{', '}', ',', ';', '\\', ':', '.',
             '"', "'", '"a"', "'b'", '"', '#', '#N/A', '#REF!', '#DIV/0!', '#FOO', '!', '$', '$A$1', 'A1', 'b2', 'A$1', 'A1:B2', 'XFD1048576', 'SUM(', 'IF(', 'NOSUCH(', 'CF(', 'BOOM(',
             'TRUE', 'FALSE', 'NULL', 'foo', 'bar_x', 'nosuch', '_', ' ', '\t', '\n', '\x00', u'é', u'你', u' ', u'\ud800', u'\U0001F600', 'E', 'e5', '1e5', '--', '&&', '""', "''",
             'ROMAN(', 'BASE(', 'DATE(', 'INDEX(', 'TEXT(', 'MATCH(', '999999999999999999999', '@', '~', '[', ']', '|', '`', '?']


def soup(rnd):
    n = rnd.choice([1, 2, 3, 5, 8, 15, 40])
    s = ''.join(rnd.choice(FRAGMENTS) for _ in range(rnd.randint(1, n)))
    return re.sub(r'\^\s*\d{4,}', '^999', s)          # exponent literals capped at 3 digits (DESIGN 3.C01 G-ii)


def tokenize(f):
    return re.findall(r'"[^"]*"|\'[^\']*\'|[A-Za-z_\.][A-Za-z_0-9\.]*\(?|\d+|<=|>=|<>|\s+|.', f, re.S)


def mutate(rnd, f, other):
    toks = tokenize(f)
    if not toks:
        return f
    k = rnd.random()
    i = rnd.randrange(len(toks))
    if k < 0.2:
        del toks[i]
    elif k < 0.35:
        toks.insert(i, toks[i])
    elif k < 0.5:
        j = rnd.randrange(len(toks))
        toks[i], toks[j] = toks[j], toks[i]
    elif k < 0.65:
        toks = toks[:i]
    elif k < 0.75:
        toks.insert(i, rnd.choice(['(', ')', '{', '}', '"', ',', ';;', '#']))
    elif k < 0.85:
        o = tokenize(other)
        toks = toks[:i] + o[rnd.randrange(len(o)):] if o else toks
    elif k < 0.93:
        toks[i] = rnd.choice(FRAGMENTS)
    else:
        toks = toks[i:]
    return re.sub(r'\^\s*\d{4,}', '^999', ''.join(toks))


def unicode_string(rnd):
    n = rnd.choice([0, 1, 3, 10, 50, 200])
    out = []
    for _ in range(n):
        k = rnd.random()
        if k < 0.4:
            out.append(chr(rnd.randrange(32, 127)))
        elif k < 0.6:
            out.append(chr(rnd.randrange(0, 0x300)))
        elif k < 0.7:
            out.append(chr(rnd.randrange(0xD800, 0xE000)))
        else:
            out.append(chr(rnd.randrange(0, 0x110000)))
    return re.sub(r'\^\s*\d{4,}', '^999', ''.join(out))


FAULTS = ['ValueError', 'KeyError', 'ZeroDivisionError', 'RecursionError', 'MemoryError', 'StopIteration', 'AssertionError', 'SyntaxError', 'TypeError', 'OverflowError',
          'UnicodeDecodeError', 'IndexError', 'AttributeError', 'code-in-message', 'BadStr', 'return-hostile', 'return-error', 'return-nan', 'Exception-subclass',
          'XL#NULL!', 'XL#DIV/0!', 'XL#VALUE!', 'XL#REF!', 'XL#NAME?', 'XL#NUM!', 'XL#N/A', 'XL#GETTING_DATA', 'XL#ERROR!',
          'ownXL:#CIRCULAR!', 'ownXL:', 'ownXL:two-args', 'ownXL:no-args', 'ownXL:#N/A', 'ownXL:badstr', 'return-ownXL:#CIRCULAR!', 'return-ownXL:two-args',
          'chain:self-cause', 'chain:two-cycle', 'chain:ownXL-from-itself', 'chain:long', 'chain:context-cycle',
          'odd:unhashable', 'odd:frozen', 'odd:setattr-raises', 'odd:eq-raises', 'odd:slots', 'odd:unhashable-ownXL', 'odd:hash-raises', 'odd:getattr-raises', 'odd:bool-raises',
          'odd:text-unhashable', 'odd:text-eq-raises', 'odd:class-raises', 'odd:text-is-a-code-but-unhashable']


class Fault(BaseException):
    pass


class Check(BaseCheck):
    ID = 'C01'
    TITLE = 'parse() is total: it always returns a well-formed result/error record'
    TECHNIQUE = 'icontract post-condition on Parser.parse + escape recorder + sys.monitoring step budget under hostile string/argument/fault workloads'
    RULE = ('case = one parse() call: (1) token soup, mutated valid formula or arbitrary Unicode string (incl. surrogates and 10 kB inputs); (2) one supported function at '
            'arity 0,1,2 over every tuple of an 85-value pool of every type (spreadsheet values, error objects incl. host-built ones, and the Python types a host has lying around: date, time, timedelta, Decimal, Fraction, Enum, str/float subclasses, sets, deque, iterators, bytes-likes, callables) (exhaustive in the thorough tier; quick: all pairs of a 26-value core of every type plus sampled pairs) and sampled arity 3,4; (3) one formula with a fault (39 exception classes incl. cyclic and 3000-long cause chains and exception objects with a hostile protocol (unhashable, frozen, raising __setattr__/__eq__/__hash__) / hostile '
            'return values) injected at one host-callback invocation, every invocation point x every fault class; (4) the repository\'s tests re-run under the contract. '
            'non-trivial = the evaluation reached at least one grammar action (reduction probe) and the three oracles were evaluated; distinct = distinct (formula, bindings class).')
    ASSUMPTIONS = ('BaseExceptions that are not Exceptions (KeyboardInterrupt, SystemExit, GeneratorExit) are control flow the host asks for and are not injected',
                   'bounded time is decided in line events (budget 20000 + 400*len + 200*host leaves), never in seconds; single C-level operations on astronomically large '
                   'operands are invisible to a step counter: pool numbers are <= 5000 and exponent literals <= 3 digits',
                   'time spent inside host callbacks is not counted')
    SHARD_TIMEOUT = {'quick': 900, 'thorough': 7200}

    NO_AMBIENT = ('repotests', 'scaling', 'content_scaling', 'size_scaling')      # a subprocess of its own; CPU-time measurements

    def plan(self, tier, seed):
        q = tier == 'quick'
        specs = [{'campaign': 'sentinels'}, {'campaign': 'repotests'}, {'campaign': 'hostile_env'}]
        env.load()
        from hotxlfp import formulas
        names = formulas.supported()
        k = 16 if q else 32
        for i in range(k):
            specs.append({'campaign': 'strings', 'seed': seed, 'n': 1800 if q else 90000, 'i': i})
            specs.append({'campaign': 'arities', 'seed': seed, 'names': names[i::k], 'sampled': 40 if q else 3000, 'core_only': q})
        for i in range(8):
            specs.append({'campaign': 'scaling', 'i': i, 'k': 8, 'reps': [4, 8, 12, 16, 20, 22, 24, 26] if q else [4, 8, 12, 16, 18, 20, 21, 22, 23, 24, 25, 26, 28]})
        specs.append({'campaign': 'passthrough'})
        for i in range(8):
            specs.append({'campaign': 'size_scaling', 'names': names[i::8], 'layouts': ['column', 'row'] if q else ['column', 'row', 'grid', 'tuples', 'text-column'],
                          'sizes': [2048, 8192, 16384] if q else [1024, 2048, 4096, 8192, 16384, 32768]})
        for i in range(8):
            specs.append({'campaign': 'content_scaling', 'names': names[i::8], 'lengths': [40, 100] if q else [30, 60, 120, 250], 'reps': [3, 6, 8, 10, 12, 16, 20] if q else [2, 4, 6, 7, 8, 9, 10, 11, 12, 14, 16, 20, 24, 30]})
        for i in range(8 if q else 16):
            specs.append({'campaign': 'faults', 'seed': seed, 'i': i, 'n': 6 if q else 60})
        return specs

    # ------------------------------------------------------------------ plumbing
    def run(self, spec, rec):
        env.load()
        self.rec = rec
        if spec['campaign'] == 'repotests':
            return self.c_repotests(spec, rec)
        self.sc = probe.StepCounter()
        self.trace = probe.ReductionTrace()
        self.sc.start()
        self.trace.start()
        try:
            getattr(self, 'c_' + spec['campaign'])(spec, rec)
        finally:
            self.sc.stop()
            self.trace.stop()

    def mkparser(self, debug=False):
        import hotxlfp
        p = hotxlfp.Parser(debug=debug)
        for n, v in {'foo': 5, 'bar_x': 'txt', 'lst': [1, 2, [3, 4]], 'xa': 4, 'yb': -6, 'zed': 0.5}.items():
            p.set_variable(n, v)
        p.set_function('CF', lambda *a: len(a))

        def boom(*a):
            raise ValueError('boom')
        p.set_function('BOOM', boom)
        p.on('callCellValue', lambda c, s: s(c.row.index + c.col.index + 1))
        p.on('callRangeValue', lambda a, b, s: s([[1, 2], [3, 4]]))
        return p

    def guarded(self, p, f, leaves=0, what=None):
        """one monitored parse; returns the record or None.  All three oracles are applied here."""
        rec = self.rec
        budget = probe.budget_for(f, leaves)
        self.trace.reset()
        import signal

        def alarm(*a):
            raise WatchdogTimeout('case wall watchdog')
        old = signal.signal(signal.SIGVTALRM, alarm)
        signal.setitimer(signal.ITIMER_VIRTUAL, CASE_WALL)
        r = steps = exceeded = None
        try:
            try:
                r, steps, exceeded = self.sc.run(lambda: p.parse(f), budget)
            finally:
                signal.setitimer(signal.ITIMER_VIRTUAL, 0)
                signal.signal(signal.SIGVTALRM, old)
        except WatchdogTimeout:
            rec.case()
            rec.inconcl('wall watchdog (%ss) fired on %r after %s line events' % (CASE_WALL, f[:100], self.sc.steps))
            rec.count('watchdog_fired')
            return None
        except Fault:
            raise
        except BaseException as x:           # (ii) nothing may escape
            rec.case()
            rec.violation('C01/exception-escapes-parse:%s' % type(x).__name__ + self.fault_tag(what), formula=f[:300], exception=type(x).__name__, context=what)
            return None
        rec.case()
        if exceeded is not None:             # (iii) step budget
            rec.violation('C01/step-budget-exceeded:%s' % exceeded.where.split('(')[-1].rstrip(')'), formula=f[:300], steps=steps, budget=budget, where=exceeded.where, context=what)
            return None
        why = record_problem(r)              # (i) record shape (also judged by the contract on the real method)
        if why is not None:
            rec.violation('C01/malformed-record:' + why + self.fault_tag(what), formula=f[:300], record=r, context=what)
        ratio = steps / float(budget)
        if ratio > rec.series.get('max_steps_over_budget', 0):
            rec.series['max_steps_over_budget'] = round(ratio, 4)
            rec.series['max_steps_formula'] = f[:120]
        rec.count('outcome.' + str(r.get('error') if isinstance(r, dict) else 'malformed'))
        if sum(self.trace.counts.values()) > 0:
            rec.count('reached_grammar_actions')
            return r, True
        return r, False

    @staticmethod
    def fault_tag(what):
        if isinstance(what, dict) and what.get('fault') == 'BadStr':
            return ':exception-whose-str-raises'
        if isinstance(what, dict) and 'ownXL' in str(what.get('fault')):
            return ':host-built-error-object'
        return ''

    # ------------------------------------------------------------------ 1. strings
    def valid_corpus(self, rnd, n):
        out = []
        g8 = C08.Gen(rnd)
        g10 = C10.Gen(rnd)
        calls = ['SUM(1,2,{3,4})', 'IF(foo>2,"big","small")', 'ROMAN(1999)', 'DATE(2020,1,1)+5', 'COUNTIF({"ab","cd"},"a*")', 'INDEX({1,2;3,4},2,1)', 'TEXT(1234.5,"#,##0.00")',
                 'CONCATENATE("a",1,TRUE)', 'BASE(255,16)', 'EDATE(DATE(2020,1,31),1)', 'MATCH(2,{1,2,3},0)', 'PV(0.05,10,-100)', 'SUBSTITUTE("a,b",",",";")', '{1,2;3,4}*2',
                 'CF(A1,foo,B2:C3)+BOOM(1)', 'IFERROR(1/0,"x")&"y"', '-lst', '2^10+50%', 'DATEDIF(DATE(2020,1,1),DATE(2021,2,3),"ym")', 'TEXTJOIN(",",TRUE,{"a","b"},NULL)']
        for _ in range(n):
            k = rnd.random()
            if k < 0.35:
                out.append(G.text(G.render(G.ExprGen(rnd, maxdepth=rnd.randint(1, 5)).tree(), rnd.choice(['min', 'full']))))
            elif k < 0.55:
                out.append(C08.render(g8.tree(rnd.randint(1, 4))))
            elif k < 0.75:
                out.append(C10.render(g10.expr(rnd.randint(0, 3))))
            else:
                out.append(rnd.choice(calls))
        return out

    def c_strings(self, spec, rec):
        rnd = self.rng(spec)
        p = self.mkparser()
        pd = self.mkparser(debug=True)
        corpus = self.valid_corpus(rnd, 300)
        replay_later = []
        old = sys.stderr
        sys.stderr = io.StringIO()
        try:
            for j in range(spec['n']):
                k = rnd.random()
                if k < 0.3:
                    f, kind = soup(rnd), 'soup'
                elif k < 0.8:
                    f, kind = mutate(rnd, rnd.choice(corpus), rnd.choice(corpus)), 'mutation'
                    if rnd.random() < 0.3:
                        f = mutate(rnd, f, rnd.choice(corpus))
                elif k < 0.9:
                    f, kind = unicode_string(rnd), 'unicode'
                elif k < 0.97:
                    f, kind = rnd.choice(corpus), 'valid'
                else:
                    unit = rnd.choice(['(', '-', '1+', '{1,', 'SUM(', '"a"&', '((1))', ')', 'A1:', 'IF(1,', u'é', '1.', '-(', '}', '",'])
                    f, kind = (unit * (10000 // len(unit)))[:10000], 'long'
                    f = re.sub(r'\^\s*\d{4,}', '^999', f)
                    if rnd.random() < 0.3:
                        f = f + ')' * 2000
                use = pd if j % 17 == 0 else p
                got = self.guarded(use, f, 8, {'kind': kind})
                if got is not None and got[1]:
                    rec.nt(f)
                rec.cov('string_kinds', kind)
                if kind != 'long' and j % 3 == 0:
                    # "for every input string" also means every time: the same text again on the same parser, and once more later
                    again = self.guarded(use, f, 8, {'kind': kind, 'repetition': 2})
                    if got is not None and again is not None and isinstance(got[0], dict) and isinstance(again[0], dict) and canon(got[0]) != canon(again[0]) \
                            and not any(w in f for w in ('NOW', 'TODAY', 'RAND')):
                        rec.violation('C01/same-string-second-time-different-record', formula=f[:300], first=got[0], second=again[0])
                    rec.count('repetitions')
                    if len(replay_later) < 50:
                        replay_later.append(f)
                if j % 200 == 199:
                    for f2 in replay_later:
                        self.guarded(use, f2, 8, {'kind': 'replayed', 'repetition': 3})
                    del replay_later[:]
                if j % 97 == 0:
                    sys.stderr.seek(0)
                    sys.stderr.truncate()
                rec.sample({'kind': kind, 'formula': f[:80].encode('unicode_escape').decode('ascii')}, k=10)
        finally:
            sys.stderr = old

    # ------------------------------------------------------------------ 1b. cost must not explode with input length
    PREFIXES = ['', '"', "'", 'SUM(1,"', "SUM(1,'", '#', '$', 'A', '1', '.', '"a"&"', '{"', '1+', 'A1:', 'x.']
    UNITS = ['\\"', "\\'", '\\\\', '\\d', '\\x', 'a', 'Z', '1', '#', '"', "'", '""', "''", ' ', '.', '$', 'A1', ':', '%', '^1', '&', '(', '{', ',', ';', '\\', u'\xe9', '\t', '1.', '_',
             'a.', '.a', 'E1', 'a1', '$A', '/', '!', '?', '#N/A', '\\"a', 'ab\\']
    SUFFIXES = ['', '"', "'", ')', '(', '!', '\\', 'x']
    CPU_LIMIT = 1.0      # CPU-seconds of this thread for an input of at most ~110 characters (linear lexing needs ~1e-4 s)

    def c_scaling(self, spec, rec):
        """A unit repeated k times inside a (possibly unterminated) token.  The step counter sees Python-level work; C-level
        work (the regex engine of the lexer) is measured in *thread CPU time*, which does not depend on machine load: an input
        of ~100 characters that burns a CPU-second is not 'bounded time'.  k grows slowly so that an exponential is caught at
        about one second, long before it could hang the run."""
        import time
        p = self.mkparser()
        combos = [(a, u, z) for a in self.PREFIXES for u in self.UNITS for z in self.SUFFIXES]
        for n, (a, u, z) in enumerate(combos):
            if n % spec['k'] != spec['i']:
                continue
            prev = None
            for k in spec['reps']:
                f = a + u * k + z
                if len(f) > 130:
                    break
                t0 = time.thread_time()
                got = self.guarded(p, f, 8, {'kind': 'scaling', 'unit': u, 'k': k})
                dt = time.thread_time() - t0
                if got is not None and got[1]:
                    rec.nt(f)
                rec.count('scaling_inputs')
                if dt > rec.series.get('max_cpu_seconds_short_input', 0):
                    rec.series['max_cpu_seconds_short_input'] = round(dt, 4)
                if dt > self.CPU_LIMIT:
                    rec.violation('C01/cpu-time-not-bounded-by-input-length', formula=f, length=len(f), repetitions=k, cpu_seconds=round(dt, 3),
                                  previous=prev, unit=u, prefix=a)
                    break
                prev = (k, round(dt, 4))
        rec.sample({'formula': '"' + '\\"' * 8, 'what': 'unit repeated k times inside an unterminated token; thread CPU time measured'})

    # ------------------------------------------------------------------ 1c. ... nor with what short text arguments CONTAIN
    def c_content_scaling(self, spec, rec):
        """Every supported function on a (pattern, text) pair of the kind that sends a backtracking matcher into exponential work:
        k wildcards (or a nested quantifier) against a text of m characters that matches all the way and fails at its very end.
        As in c_scaling the measure is thread CPU time - the matcher is C code and the step counter does not see it - and k grows
        slowly, so that an exponential is caught at about a second."""
        import time
        p = self.mkparser()
        families = [('stars', lambda k: '*a' * k + 'b'), ('stars-then-class', lambda k: '*a' * k + '[b]'), ('questions-and-stars', lambda k: '?*' * k + 'b'),
                    ('tilde-stars', lambda k: '*a' * k + '~*'), ('nested-quantifier', lambda k: '(a+)+' + '$' * (k > 99)), ('alternation', lambda k: '(a|aa)+$'), ('repeat', lambda k: '(.*a){%d}' % k)]
        shapes = ['%s(v_a,v_p)', '%s(v_p,v_a)', '%s(v_l,v_p)', '%s(v_p,v_l,0)', '%s(v_l,v_p,v_l)', '%s(v_n,v_l,v_p)', '%s(v_a,v_p,"x")', '%s(v_p,v_a,1)', '%s(v_l,"<>"&v_p)', '%s(v_n,v_l,v_p,v_l,v_p)']
        for fn in spec['names']:
            for fam, mk in families:
                for shape in shapes:
                    f = shape % fn
                    prev = None
                    for m in spec['lengths']:
                        text = 'a' * m
                        hit = False
                        for k in spec['reps']:
                            pat = mk(k)
                            if len(pat) > 64:
                                break
                            p.set_variable('v_a', text)
                            p.set_variable('v_p', pat)
                            p.set_variable('v_l', [text, text + 'c', 'b'])
                            p.set_variable('v_n', [1, 2, 3])
                            t0 = time.thread_time()
                            got = self.guarded(p, f, 8, {'kind': 'content-scaling', 'function': fn, 'family': fam, 'k': k, 'm': m})
                            dt = time.thread_time() - t0
                            rec.count('content_scaling_inputs')
                            if got is not None and got[1]:
                                rec.nt((f, fam, k, m))
                            rec.cov('content_scaling_families', fam)
                            if dt > rec.series.get('max_cpu_seconds_short_arguments', 0):
                                rec.series['max_cpu_seconds_short_arguments'] = round(dt, 4)
                            if dt > self.CPU_LIMIT:
                                rec.violation('C01/cpu-time-not-bounded-by-argument-length:' + fn, formula=f, pattern=pat, text_length=m, wildcards=k, cpu_seconds=round(dt, 3), previous=prev, family=fam)
                                hit = True
                                break
                            prev = (k, m, round(dt, 4))
                            if fam in ('nested-quantifier', 'alternation'):
                                break          # these do not depend on k
                        if hit:
                            break
        rec.sample({'formula': 'COUNTIF(v_l,v_p)', 'v_p': '*a' * 8 + 'b', 'v_l': ['a' * 40, '...'], 'what': 'pattern with k wildcards against an almost-matching text; thread CPU time measured'})

    # ------------------------------------------------------------------ 1d. ... nor faster than linearly with the SIZE of a host value
    def c_size_scaling(self, spec, rec):
        """Every supported function on a host list of n cells (a column handed over as n one-cell rows, a flat row, a square grid),
        n doubling.  A spreadsheet column has up to 2^20 rows: work that grows with the square of n is not 'bounded time' for a host
        that hands over real ranges.  Thread CPU time again; verdict only when a call costs more than a CPU second for at most 32768
        cells AND cost more than three times the call on half the cells (linear work doubles, quadratic work quadruples)."""
        import time
        p = self.mkparser()
        layouts = {'column': lambda n: [[1] for _ in range(n)], 'row': lambda n: [1] * n, 'grid': lambda n: [[1] * int(n ** 0.5) for _ in range(int(n ** 0.5))],
                   'tuples': lambda n: tuple((1,) for _ in range(n)), 'text-column': lambda n: [['ab'] for _ in range(n)]}
        shapes = ['%s(v_big)', '%s(v_big,1)', '%s(1,v_big)', '%s(v_big,v_big)', '%s(v_big,">0")', '%s(",",TRUE,v_big)', 'v_big+1', '%s(A1:B2,v_big)']
        for fn in spec['names']:
            for lay in spec['layouts']:
                for shape in shapes:
                    if '%s' not in shape and fn != spec['names'][0]:
                        continue
                    f = shape % fn if '%s' in shape else shape
                    prev = None
                    for n in spec['sizes']:
                        p.set_variable('v_big', layouts[lay](n))
                        t0 = time.thread_time()
                        got = self.guarded(p, f, 8 + n, {'kind': 'size-scaling', 'function': fn, 'layout': lay, 'cells': n})
                        dt = time.thread_time() - t0
                        rec.count('size_scaling_inputs')
                        rec.cov('size_scaling_layouts', lay)
                        if got is not None:
                            rec.nt((f, lay, n))
                        if dt > rec.series.get('max_cpu_seconds_32768_cells', 0):
                            rec.series['max_cpu_seconds_32768_cells'] = round(dt, 4)
                        if got is None:
                            break
                        if dt > self.CPU_LIMIT and prev is not None and dt > 3 * prev[1]:
                            # measured once more before it counts (the smaller of two runs each): a collector pause in one call is not growth
                            def once(k):
                                p.set_variable('v_big', layouts[lay](k))
                                t1 = time.thread_time()
                                self.guarded(p, f, 8 + k, {'kind': 'size-scaling', 'function': fn, 'layout': lay, 'cells': k})
                                return time.thread_time() - t1
                            half, full = min(prev[1], once(prev[0])), min(dt, once(n))
                            rec.count('size_scaling_suspects_remeasured')
                            if not (full > self.CPU_LIMIT and full > 3 * half):
                                prev = (n, round(full, 4))
                                continue
                            dt, prev = full, (prev[0], round(half, 4))
                            rec.violation('C01/cpu-time-grows-faster-than-the-size-of-a-host-value:' + lay, formula=f, cells=n, cpu_seconds=round(dt, 3), half_the_cells=prev, layout=lay)
                            break
                        if dt > 8 * self.CPU_LIMIT:
                            break
                        prev = (n, round(dt, 4))
        p.set_variable('v_big', None)
        rec.sample({'formula': 'SUM(v_big)', 'v_big': 'n one-cell rows, n = 2048 .. 32768', 'what': 'thread CPU time against the number of cells of a host list'})

    # ------------------------------------------------------------------ 2'. whatever the host hands over comes back as a well-formed record
    def c_passthrough(self, spec, rec):
        """every pool value as the VALUE of the formula: through a variable, a cell, a range, a custom function, parentheses and the
        functions that return an argument unchanged - the record is judged by the contract on parse() as everywhere else"""
        vals = pool()
        for debug in (False, True):
            p = self.mkparser(debug)
            cur = [None]
            p.set_function('GIVE', lambda *a: cur[0])
            p.on('callCellValue', lambda c, s: s(cur[0]) if c.label.upper() == 'Q77' else None)
            p.on('callVariable', lambda n, s: s(cur[0]) if n == 'late_bound' else None)
            for i, v in enumerate(vals):
                cur[0] = v
                p.set_variable('v_a', v)
                for f in ('v_a', '(v_a)', 'IF(TRUE,v_a,1)', 'IF(FALSE,1,v_a)', 'CHOOSE(1,v_a)', 'GIVE()', 'Q77', 'late_bound', 'IFERROR(v_a,1)', 'INDEX(v_a,0,0)', 'IFS(TRUE,v_a)', 'SWITCH(1,1,v_a)',
                          '{v_a}', 'IFNA(v_a,1)', 'v_a&""', '-v_a', 'v_a=v_a'):
                    got = self.guarded(p, f, 8, {'kind': 'passthrough', 'value': i, 'type': type(v).__name__, 'debug': debug})
                    if got is not None:
                        rec.nt((f, i, debug))
                    rec.cov('passthrough_value_types', type(v).__name__)
        rec.sample({'formula': 'IF(TRUE,v_a,1)', 'v_a': 'every pool value in turn', 'what': 'host values as the value of the formula'})
        # host lists that contain themselves: every function walks them to an end (an error is fine, an endless walk is not)
        from hotxlfp import formulas
        q = self.mkparser()
        for ci, cv in enumerate(cyclic_values()):
            q.set_variable('v_c', cv)
            for fn in formulas.supported():
                for shape in ('%s(v_c)', '%s(v_c,1)', '%s(1,v_c)'):
                    got = self.guarded(q, shape % fn, 400, {'kind': 'cyclic-host-list', 'function': fn, 'which': ci})
                    if got is not None:
                        rec.nt(('cyclic', shape % fn, ci))
            for f in ('v_c', 'v_c+1', 'v_c&""', 'v_c=v_c', '-v_c', '{v_c}', 'IF(TRUE,v_c,1)'):
                # (element-wise operators descend a circular list until the interpreter's recursion limit stops them: bounded, ~30 lines a level)
                self.guarded(q, f, 400, {'kind': 'cyclic-host-list', 'formula': f, 'which': ci})
            rec.count('functions_given_a_list_that_contains_itself', len(formulas.supported()))
        # a record belongs to the caller: whatever the caller does to it (annotate it, overwrite its entries), the next record - of this
        # parser or of any other - is a record of exactly two entries again, and a different object
        import hotxlfp
        XL = hx.errors().XLError
        for f in ('', ' ', '1', '""', 'A1', 'foo', '1/0', 'nosuch', '1+', '{1,2}', 'lst', 'NULL', 'TRUE', 'Q77'):
            q = self.mkparser()
            r1 = self.guarded(q, f, 8, {'kind': 'record-ownership', 'formula': f})
            if r1 is None or not isinstance(r1[0], dict):
                continue
            r1 = r1[0]
            first = canon(r1['result']), r1['error']
            r1['cell'] = 'B1'
            r1['error'] = '#N/A'
            r1['result'] = XL('#N/A')
            for who, other in (('same-parser', q), ('new-parser', self.mkparser()), ('plain-parser', hotxlfp.Parser())):
                r2 = self.guarded(other, f, 8, {'kind': 'record-ownership', 'formula': f, 'who': who})
                if r2 is None or who == 'plain-parser' or not isinstance(r2[0], dict):
                    continue
                r2 = r2[0]
                ok = r2 is not r1 and (canon(r2['result']), r2['error']) == first
                if not ok:
                    rec.violation('C01/record-is-shared-with-an-earlier-call', formula=f, who=who, same_object=r2 is r1, record=r2, first=first)
                rec.nt(('own', f, who))

    # ------------------------------------------------------------------ 2. functions x arities
    def c_arities(self, spec, rec):
        rnd = self.rng(spec)
        p = self.mkparser()
        vals = pool()
        n = len(vals)
        names = ['v_' + hx.LETTERS[i] for i in range(4)]

        def call(fn, idxs):
            for nm, i in zip(names, idxs):
                p.set_variable(nm, vals[i])
            f = '%s(%s)' % (fn, ','.join(names[:len(idxs)]))
            got = self.guarded(p, f, 8 * len(idxs), {'function': fn, 'args': idxs})
            if got is not None and got[1]:
                rec.nt((fn, tuple(idxs)))
            rec.cov('function_x_arity', (fn, len(idxs)))
        for fn in spec['names']:
            call(fn, ())
            for i in range(n):
                call(fn, (i,))
            if spec.get('core_only'):
                # quick tier: all pairs over a 24-value core (one value of every type) plus sampled pairs of the full pool
                for i in CORE:
                    for j in CORE:
                        call(fn, (i, j))
                for _ in range(120):
                    call(fn, (rnd.randrange(n), rnd.randrange(n)))
            else:
                for i in range(n):
                    for j in range(n):
                        call(fn, (i, j))
            for ar in (3, 4):
                for _ in range(spec['sampled']):
                    call(fn, tuple(rnd.randrange(n) for _ in range(ar)))
        rec.count('pool_size', 0)
        rec.series['pool_size'] = n
        rec.sample({'functions': spec['names'][:5], 'pool_size': n, 'arities': '0,1,2 exhaustive; 3,4 sampled'})

    # ------------------------------------------------------------------ 3. faulting callbacks
    def make_fault(self, name):
        objs = hx.error_objects()
        if name.startswith('XL'):
            return ('raise', objs[name[2:]])
        if 'ownXL' in name:
            XL = hx.errors().XLError
            what = name.split(':', 1)[1]
            obj = {'#CIRCULAR!': lambda: XL('#CIRCULAR!'), '': lambda: XL(''), 'two-args': lambda: XL('#N/A', 'detail'), 'no-args': lambda: XL(), '#N/A': lambda: XL('#N/A'),
                   'badstr': lambda: type('BadXL', (XL,), {'__str__': lambda self: 1 / 0})('x')}[what]()
            return ('return' if name.startswith('return') else 'raise', obj)
        if name.startswith('odd:'):
            # exception objects whose own protocol is unusual: unhashable (any @dataclass exception), frozen, refusing setattr, raising in __eq__ ...
            import dataclasses
            what = name.split(':', 1)[1]
            XL = hx.errors().XLError

            def boom(*a, **k):
                raise RuntimeError('protocol')
            if what == 'unhashable':
                obj = dataclasses.dataclass(type('HostErr', (Exception,), {'__annotations__': {'code': int}, 'code': 1}))()
            elif what == 'frozen':
                obj = dataclasses.dataclass(frozen=True)(type('FrozenErr', (Exception,), {'__annotations__': {'code': int}, 'code': 1}))()
            elif what == 'setattr-raises':
                obj = type('NoSet', (Exception,), {'__setattr__': boom})('x')
            elif what == 'eq-raises':
                obj = type('NoEq', (Exception,), {'__eq__': boom, '__hash__': lambda self: 1})('x')
            elif what == 'slots':
                obj = type('Slotted', (Exception,), {'__slots__': ()})('x')
            elif what == 'unhashable-ownXL':
                obj = type('UnhashXL', (XL,), {'__eq__': lambda self, o: self is o, '__hash__': None})('#N/A')
            elif what == 'hash-raises':
                obj = type('NoHash', (Exception,), {'__hash__': boom})('x')
            elif what == 'getattr-raises':
                obj = type('NoGet', (Exception,), {'__getattr__': boom})('x')
            elif what in ('text-unhashable', 'text-is-a-code-but-unhashable'):
                # str(exception) may hand back an instance of a str SUBCLASS as it is: its text is then not a plain dictionary key
                txt = type('TextNoHash', (str,), {'__hash__': boom})('#N/A' if 'code' in what else 'no')
                obj = type('OddText', (Exception,), {'__str__': lambda self, _t=txt: _t})('x')
            elif what == 'text-eq-raises':
                txt = type('TextNoEq', (str,), {'__eq__': boom, '__hash__': lambda self: hash('#N/A')})('#N/A')
                obj = type('OddText', (Exception,), {'__str__': lambda self, _t=txt: _t})('x')
            elif what == 'class-raises':
                obj = type('NoClassErr', (Exception,), {'__class__': property(boom)})('x')
            else:
                obj = type('NoBool', (Exception,), {'__bool__': boom, '__len__': boom})('x')
            return ('raise', obj)
        if name.startswith('chain:'):
            # exceptions whose __cause__/__context__ chain is cyclic or very long (raise err from err; two errors naming each other)
            what = name.split(':', 1)[1]
            a, b = ValueError('first'), KeyError('second')
            if what == 'self-cause':
                a.__cause__ = a
            elif what == 'two-cycle':
                a.__cause__, b.__cause__ = b, a
            elif what == 'context-cycle':
                a.__context__, b.__context__ = b, a
            elif what == 'ownXL-from-itself':
                a = hx.errors().XLError('#N/A')
                a.__cause__ = a
            elif what == 'long':
                cur = a
                for k in range(3000):
                    nxt = ValueError(k)
                    cur.__cause__ = nxt
                    cur = nxt
            return ('raise', a)
        if name == 'code-in-message':
            return ('raise', ValueError('#NUM!'))
        if name == 'BadStr':
            return ('raise', BadStr())
        if name == 'return-hostile':
            return ('return', Hostile())
        if name == 'return-error':
            return ('return', objs['#REF!'])
        if name == 'return-nan':
            return ('return', float('nan'))
        if name == 'Exception-subclass':
            return ('raise', type('HostError', (Exception,), {})('host failed'))
        if name == 'UnicodeDecodeError':
            return ('raise', UnicodeDecodeError('utf-8', b'\xff', 0, 1, 'bad'))
        return ('raise', getattr(__import__('builtins'), name)('injected'))

    def c_faults(self, spec, rec):
        rnd = self.rng(spec)
        import hotxlfp
        formulas_ = ['CF(A1,foo,B2:C3)+CF(1)', 'SUM(A1,B2)*foo', 'IFERROR(CF(A1),CF(2))', 'CF(CF(CF(1)))', '{A1,foo,CF(1)}', '-CF(A1:B2)&foo', 'IF(A1>1,CF(1),CF(2))',
                     'foo', 'A1', 'A1:B2', 'CF()', 'MAX(CF(1),CF(2),CF(3))+A1', 'CF(A1)=CF(A1)', 'CONCATENATE(foo,A1,CF("x"))', 'ISERROR(CF(1/0))', 'SUM(lst,CF(lst))']
        g10 = C10.Gen(rnd)
        for _ in range(spec['n']):
            t = g10.expr(rnd.randint(1, 3))
            formulas_.append(C10.render(t).replace('FA(', 'CF(').replace('FB(', 'CF(').replace('F.c(', 'CF('))
        for fi, f in enumerate(formulas_):
            if fi % max(1, (8 if spec['n'] <= 6 else 16)) != spec['i'] % max(1, (8 if spec['n'] <= 6 else 16)) and fi < 16:
                continue
            for debug in (False, True):
                state = {'n': 0, 'at': None, 'fault': None}

                def site(kind, default):
                    def cb(*a):
                        state['n'] += 1
                        if state['n'] == state['at']:
                            mode, obj = self.make_fault(state['fault'])
                            rec.cov('fault_x_site', (state['fault'], kind))
                            if mode == 'raise':
                                raise obj
                            if kind == 'fn':
                                return obj
                            a[-1](obj)
                            return None
                        return default(*a)
                    return cb
                p = hotxlfp.Parser(debug=debug)
                p.set_variable('foo', 5)
                p.set_variable('lst', [1, 2, 3])
                for n_, v_ in C10.VARS.items():
                    p.set_variable(n_, v_)
                p.set_function('CF', site('fn', lambda *a: len(a)))
                p.on('callCellValue', site('cell', lambda c, s: s(3)))
                p.on('callRangeValue', site('range', lambda a, b, s: s([[1, 2], [3, 4]])))
                p.on('callVariable', site('var', lambda n, s: None))
                p.on('callFunction', site('fnevent', lambda n, a, s: None))
                old = sys.stderr
                sys.stderr = io.StringIO()
                try:
                    state['n'], state['at'] = 0, None
                    got = self.guarded(p, f, 8, {'fault': None})
                    total = state['n']
                    if got is not None and got[1]:
                        rec.nt((f, 'nofault', debug))
                    for j in range(1, total + 1):
                        for fault in FAULTS:
                            state['n'], state['at'], state['fault'] = 0, j, fault
                            got = self.guarded(p, f, 8, {'fault': fault, 'invocation': j, 'of': total, 'debug': debug})
                            if got is not None and got[1]:
                                rec.nt((f, j, fault, debug))
                            rec.count('faults_injected')
                finally:
                    sys.stderr = old
            rec.sample({'formula': f, 'callback_invocations': total, 'fault_classes': len(FAULTS)}, k=6)

    # ------------------------------------------------------------------ 3b. listeners that breed, a stderr that cannot be written
    def c_hostile_env(self, spec, rec):
        import hotxlfp
        formulas_ = {'callCellValue': 'A1+B2*A1', 'callRangeValue': 'SUM(A1:B2)+MAX(C1:D2)', 'callVariable': 'zz_a+zz_b', 'callFunction': 'SUM(1,MAX(2,3))+PI()'}
        # (i) a listener that subscribes more listeners to the event it is being delivered - itself again, a fresh closure that does the same,
        #     an unsubscribe-resubscribe pair: every evaluation still returns, within the step budget
        for ev, f in formulas_.items():
            for style in ('itself', 'fresh-closure', 'off-then-on', 'once-inside'):
                p = hotxlfp.Parser()
                calls = [0]

                def breed(*a, _ev=ev, _style=style, _p=p):
                    calls[0] += 1
                    if calls[0] > 5000:
                        return
                    if _style == 'itself':
                        _p.on(_ev, breed)
                    elif _style == 'fresh-closure':
                        _p.on(_ev, lambda *b: breed(*b))
                    elif _style == 'off-then-on':
                        _p.off(_ev, breed)
                        _p.on(_ev, breed)
                    else:
                        _p.once(_ev, breed)
                    if _ev != 'callFunction':
                        a[-1](2)
                p.on(ev, breed)
                for k in range(4):
                    calls[0] = 0
                    got = self.guarded(p, f, 40, {'listener': 'subscribes-during-delivery:' + style, 'event': ev, 'evaluation': k})
                    if got is not None and got[1]:
                        rec.nt(('breed', ev, style, k))
                    if calls[0] > 5000:
                        rec.violation('C01/listener-subscribed-during-delivery-keeps-the-emit-alive', event=ev, style=style, formula=f, calls=calls[0])
                        break
        # (ii) debug output goes to a stderr that is closed, raises, or is None: the record is the one debug=False gives
        class Raising(object):
            def write(self, *a):
                raise OSError('broken pipe')

            def flush(self):
                raise OSError('broken pipe')
        closed = io.StringIO()
        closed.close()
        p0, pd = self.mkparser(), self.mkparser(debug=True)
        old = sys.stderr
        try:
            for f in ('1/0', 'NA()', '-NA()', 'SUM(1,NA())', 'BOOM(1)', 'CF(1)+', 'nosuch', '#REF!', '1+1', 'IFERROR(1/0,2)', 'A1:B2:C3', '"a"+1', 'INDEX(lst,99)', 'ERRR(1)', ''):
                sys.stderr = io.StringIO()
                ref = self.guarded(p0, f, 8, {'stderr': 'ordinary', 'debug': False})
                for name, stream in (('closed', closed), ('raising', Raising()), ('none', None)):
                    sys.stderr = stream
                    try:
                        got = self.guarded(pd, f, 8, {'stderr': name, 'debug': True})
                    finally:
                        sys.stderr = old
                    if got is not None and ref is not None and canon(got[0]) != canon(ref[0]):
                        rec.violation('C01/record-with-debug-on-and-unwritable-stderr-differs', formula=f, stderr=name, debug_on=got[0], debug_off=ref[0])
                    rec.nt(('stderr', name, f))
        finally:
            sys.stderr = old

    # ------------------------------------------------------------------ 4. the repository's tests under the contract
    def c_repotests(self, spec, rec):
        out = tempfile.mktemp(prefix='hxmon_plugin_', suffix='.json')
        e = dict(os.environ)
        e['PYTHONPATH'] = env.VERIF + os.pathsep + env.DEPS
        e['HXMON_PLUGIN_OUT'] = out
        e['HXMON_REPO'] = env.REPO
        e['PYTHONDONTWRITEBYTECODE'] = '1'
        try:
            r = subprocess.run([sys.executable, '-m', 'pytest', '-q', '-x', '-p', 'no:cacheprovider', '-p', 'hxmon.pytest_plugin', 'tests'], cwd=env.REPO, env=e,
                               capture_output=True, text=True, timeout=600)
            if not os.path.exists(out):
                rec.inconcl('repository tests under the contract layer produced no monitor output: %s' % (r.stdout[-300:] + r.stderr[-300:]))
                return
            data = json.load(open(out))
        finally:
            if os.path.exists(out):
                os.unlink(out)
        n = data['evals'].get('C01.parse_post', 0)
        rec.case(n)
        rec.count('repotests.parse_calls_under_contract', n)
        rec.count('repotests.tests', data.get('tests', 0))
        rec.nt('repotests-a')
        rec.nt('repotests-b')
        if n == 0:
            rec.inconcl('the parse contract was never evaluated while the repository tests ran')
        for a in data['alarms']:
            if a['prop'] == 'C01':
                for w in a['witnesses'][:2]:
                    rec.violation(a['key'] + ':during-repository-tests', **w)
            else:
                rec.foreign['%s' % a['key']] += a['count']
        rec.sample({'repository_tests_run_under_contract': data.get('tests'), 'parse_calls': n})

    def c_sentinels(self, spec, rec):
        p = self.mkparser()
        for f in ('', ' ', '=', '1+', '((', '"x', u'§', '#FOO', 'SUM(', '1 2', 'NOSUCH(1)+1', 'BOOM(2)', '1/0', 'SUM(1/0)', 'nosuch', '#N/A', 'A1:B2:C3', '{1,2', '}{', ',', ';;', 'x y',
                  'TRUE(', 'IF(,,)', 'ACOS(2)', 'BASE(5,1)', 'BASE(-5,2)', 'BASE(5,0.5)', 'CONCATENATE(1/0)', '- -', '<>', '&&', '\x00', u'\ud800', 'ROMAN(3999,4)', '9^999', 'FACT(5000)',
                  '-"a"', '-NULL', '-{1,2}', '{1,2}&{3}', 'A1:B2&"x"', '"a"<{1}', 'lst+lst', 'lst=lst', '#GETTING_DATA', 'INDEX(lst,0)', 'CHOOSE(1.5,1,2)'):
            got = self.guarded(p, f, 8, {'kind': 'sentinel'})
            if got is not None and got[1]:
                rec.nt(f)
        # a callback raising an exception whose str() raises
        import hotxlfp
        q = hotxlfp.Parser()

        def bad(*a):
            raise BadStr()
        q.set_function('BAD', bad)
        q.on('callCellValue', lambda c, s: bad())
        for f in ('BAD(1)', '1+BAD()', 'A1', 'SUM(A1,2)'):
            got = self.guarded(q, f, 8, {'fault': 'BadStr'})
            if got is not None and got[1]:
                rec.nt(('badstr', f))
        XL = hx.errors().XLError
        w = hotxlfp.Parser()
        w.set_function('CIRC', lambda *a: XL('#CIRCULAR!'))

        def rz(*a):
            raise XL('custom text')
        w.set_function('RAISEXL', rz)
        w.set_variable('ev_own', XL())
        w.on('callCellValue', lambda c, s: s(XL('#N/A', 'detail')))
        for f in ('CIRC()', 'RAISEXL()', 'ev_own', 'A1', '1+CIRC()', '-CIRC()', 'CIRC()&"x"', 'SUM(1,CIRC())', 'IFERROR(CIRC(),1)'):
            got = self.guarded(w, f, 8, {'fault': 'ownXL:sentinel'})
            if got is not None and got[1]:
                rec.nt(('ownxl', f))

    def judge(self, merged, tier):
        why = []
        c = merged['counts']
        if c.get('contract_evals.C01.parse_post', 0) == 0:
            why.append('the parse post-condition contract was never evaluated')
        if c.get('reached_grammar_actions', 0) < 1000:
            why.append('fewer than 1000 evaluations reached a grammar action')
        fa = merged['cover'].get('function_x_arity', ())
        nfun = len(set(f for f, _ in fa))
        if nfun < 150:
            why.append('only %d functions were driven in the arity campaign' % nfun)
        if c.get('faults_injected', 0) < 500:
            why.append('fewer than 500 faults injected')
        return why

    def extra(self, merged):
        fa = merged['cover'].get('function_x_arity', ())
        return {'functions_driven': len(set(f for f, _ in fa)), 'function_x_arity_cells': len(fa),
                'outcomes_by_error_code': {k[8:]: v for k, v in merged['counts'].items() if k.startswith('outcome.')},
                'exhaustive_subspace': 'every supported function at arity 0, 1 and 2 over every tuple of the %s-value pool' % merged['series'].get('pool_size', '?')}
