"""C12 - logical functions are truth-functional; type predicates classify values.

Boundary recorder vs truth tables: all tuples of length 1-3 over {TRUE, FALSE, 0, 1, -2, 0.5, blank} and sampled
tuples to length 6, flat, nested in array literals and in host lists; IF/IFS/SWITCH with 1-5 pairs; every error code in
every tested condition position; every pool value for the predicates; integers and fractions for parity.
"""
import itertools

from .common import FormulaCheck
from ..oracle import CODES9
from .. import hx

VALS = [True, False, 0, 1, -2, 0.5, None]
# non-zero is non-zero at every magnitude, and both zeros are zero (sampled tuples, NOT/IF, IFS conditions)
RARE = [1e-16, -1e-16, 2.220446049250313e-16, 5e-324, -1e-300, 6.6e-34, 1e-9, 1e308, -1e308, 2 ** 70, -(2 ** 70), 0.0, -0.0, 1e-17 + 0.0, 10 ** 30]


def tv(x):
    return bool(x) if x is not None else False


def flat(a):
    for x in a:
        if isinstance(x, list):
            for y in flat(x):
                yield y
        else:
            yield x


class Check(FormulaCheck):
    ID = 'C12'
    TITLE = 'Logical functions are truth-functional; type predicates classify values'
    TECHNIQUE = 'boundary recorder on Parser.parse vs truth-table model (exhaustive short tuples, sampled long ones, errors in every condition slot)'
    RULE = ('case = one call of AND/OR/XOR/NOT/IF/IFS/SWITCH or of a predicate with arguments injected as variables (flat, nested host lists) or literals; '
            'tuples of length 1-3 over {TRUE,FALSE,0,1,-2,0.5,blank} are enumerated exhaustively, longer ones and IFS/SWITCH lists are sampled; every one of the 9 '
            'error codes is placed in every tested condition slot. non-trivial = the result was compared with the model; distinct = distinct (function, arguments, grouping).')
    ASSUMPTIONS = ('truthiness of text is not claimed; SWITCH targets and cases are drawn from one type at a time; an error as a CASE is not used',
                   'one error per call; dates are outside the five predicate classes; arity 0 is outside the quantifier',
                   'an error in an IFS condition is demanded to surface only up to and including the first true condition')

    def plan(self, tier, seed):
        specs = [{'campaign': 'sentinels'}, {'campaign': 'tuples', 'seed': seed, 'sampled': 4000 if tier == 'quick' else 60000, 'i': 0},
                 {'campaign': 'errors', 'seed': seed}, {'campaign': 'predicates', 'seed': seed, 'n': 3000 if tier == 'quick' else 20000}]
        n, k = (4000, 16) if tier == 'quick' else (40000, 16)
        for i in range(k):
            specs.append({'campaign': 'branches', 'seed': seed, 'n': n, 'i': i})
        if tier != 'quick':
            for i in range(1, 16):
                specs.append({'campaign': 'tuples', 'seed': seed, 'sampled': 60000, 'i': i})
        return specs

    def prepare(self, spec, rec):
        self.objs = hx.error_objects()

    # ---------------------------------------------------------------- AND/OR/XOR/NOT/IF
    def call_grouped(self, fn, tup, rnd):
        """render fn(...) with the tuple regrouped: separate args, nested host lists, array literals"""
        args = list(tup)
        mode = rnd.choice(['flat', 'hostlist', 'nestedlist', 'literal'])
        if mode == 'literal' and any(x not in VALS for x in args):
            mode = 'flat'       # only the seven core values are written as literals
        if mode == 'hostlist' and len(args) >= 1:
            self.e.bind(v_a=args)
            return '%s(v_a)' % fn, mode
        if mode == 'nestedlist' and len(args) >= 2:
            self.e.bind(v_a=[args[0], [args[1:]]])
            return '%s(v_a)' % fn, mode
        if mode == 'literal':
            def L(x):
                return 'NULL' if x is None else ('TRUE' if x is True else 'FALSE' if x is False else hx.lit(x))
            if len(args) >= 2 and rnd.random() < 0.5:
                return '%s({%s},%s)' % (fn, ','.join(L(x) for x in args[:-1]), L(args[-1])), 'array-literal'
            return '%s(%s)' % (fn, ','.join(L(x) for x in args)), 'literal'
        names = []
        for i, a in enumerate(args):
            self.e.bind(**{hx.varname(i): a})
            names.append(hx.varname(i))
        return '%s(%s)' % (fn, ','.join(names)), 'flat'

    def c_tuples(self, spec, rec):
        rnd = self.rng(spec)
        tuples = []
        if spec['i'] == 0:
            for L in (1, 2, 3):
                tuples += list(itertools.product(VALS, repeat=L))
        tuples += [tuple(rnd.choice(VALS) for _ in range(rnd.randint(4, 6))) for _ in range(spec['sampled'])]
        tuples += [tuple(rnd.choice(RARE) if rnd.random() < 0.5 else rnd.choice(VALS) for _ in range(rnd.randint(1, 4))) for _ in range(spec['sampled'] // 4)]
        for tup in tuples:
            t = [tv(x) for x in tup]
            for fn, exp in (('AND', all(t)), ('OR', any(t)), ('XOR', sum(t) % 2 == 1)):
                f, mode = self.call_grouped(fn, tup, rnd)
                g = self.ev(f)
                self.expect('C12/%s-truth-table' % fn, g is exp, formula=f, args=tup, got=g, expected=exp, grouping=mode)
                rec.nt((fn, tup, mode))
                rec.cov('grouping', mode)
        rec.count('tuples_exhaustive_upto3', 7 + 49 + 343 if spec['i'] == 0 else 0)
        for x in VALS + RARE:
            g = self.ev('NOT(v_x)', v_x=x)
            self.expect('C12/NOT', g is (not tv(x)), arg=x, got=g)
            # 'of all their (flattened) arguments': the one argument of NOT may come inside an array (a one-cell range, {0}) like those of AND and OR
            for nested in ([x], [[x]], (x,)):
                g = self.ev('NOT(v_x)', v_x=nested)
                self.expect('C12/NOT:argument-inside-a-one-item-array', g is (not tv(x)), arg=nested, got=g)
            if isinstance(x, (int, float)) and not isinstance(x, bool) and x == x and abs(x) < 1e15 and x == int(x):
                g = self.ev('NOT({%d})' % int(x))
                self.expect('C12/NOT:argument-inside-a-one-item-array', g is (not tv(x)), formula='NOT({%d})' % int(x), got=g)
            g = self.ev('IF(v_x,"t","f")', v_x=x)
            self.expect('C12/IF', g == ('t' if tv(x) else 'f'), arg=x, got=g)
            rec.nt(('NOT/IF', x))
        rec.sample({'formula': 'AND(v_a)', 'tuple': repr(tuples[-1])})

    # ---------------------------------------------------------------- errors in tested conditions
    def c_errors(self, spec, rec):
        rnd = self.rng(spec)
        for code in CODES9:
            eobj = self.objs[code]
            want = 'ERR:' + code
            for fn in ('AND', 'OR', 'XOR'):
                for n in (1, 2, 3, 4):
                    for pos in range(n):
                        a = [rnd.choice([True, False, 1, 0]) for _ in range(n)]
                        a[pos] = eobj
                        for mode in ('flat', 'hostlist'):
                            if mode == 'flat':
                                for i, x in enumerate(a):
                                    self.e.bind(**{hx.varname(i): x})
                                f = '%s(%s)' % (fn, ','.join(hx.varname(i) for i in range(n)))
                            else:
                                self.e.bind(v_a=a)
                                f = '%s(v_a)' % fn
                            g = self.ev(f)
                            self.expect('C12/error-condition-in-%s' % fn, g == want, formula=f, args=a, got=g, expected=want)
                            rec.nt((fn, code, n, pos, mode))
            for f, key in (('NOT(v_x)', 'NOT'), ('IF(v_x,1,2)', 'IF'), ('IFS(v_x,1,TRUE,2)', 'IFS-first'), ('IFS(FALSE,1,v_x,2)', 'IFS-second'),
                           ('IFS(0,1,v_x,2,TRUE,3)', 'IFS-second'), ('IF(v_x,"a","b")', 'IF'), ('NOT(NOT(v_x))', 'NOT'),
                           # the value SWITCH tests is its target: an error there is that error, not the default branch (nor #N/A)
                           ('SWITCH(v_x,1,"a","d")', 'SWITCH-target'), ('SWITCH(v_x,1,"a")', 'SWITCH-target'), ('SWITCH(v_x,1,"a",2,"b","d")', 'SWITCH-target')):
                g = self.ev(f, v_x=eobj)
                self.expect('C12/error-condition-in-' + key, g == want, formula=f, code=code, got=g, expected=want)
                rec.nt((f, code))
            # produced by an operator / a function instead of supplied by the host
            if code == '#DIV/0!':
                for f, key in (('AND(1/0)', 'AND'), ('OR(1,1/0)', 'OR'), ('NOT(1/0)', 'NOT'), ('IF(1/0,1,2)', 'IF'), ('XOR(1/0,TRUE)', 'XOR'), ('IFS(1/0,1)', 'IFS-first')):
                    g = self.ev(f)
                    self.expect('C12/error-condition-in-' + key, g == want, formula=f, got=g, expected=want)
            if code == '#N/A':
                for f, key in (('AND(NA())', 'AND'), ('IF(NA(),1,2)', 'IF'), ('NOT(NA())', 'NOT')):
                    g = self.ev(f)
                    self.expect('C12/error-condition-in-' + key, g == want, formula=f, got=g, expected=want)
            # an error *after* the first true IFS condition is not a tested condition: the branch is returned
            g = self.ev('IFS(TRUE,7,v_x,2)', v_x=eobj)
            self.expect('C12/IFS-untested-condition', g == 7, formula='IFS(TRUE,7,v_x,2)', code=code, got=g)
        rec.sample({'formula': 'IFS(FALSE,1,v_x,2)', 'v_x': '#N/A'})

    # ---------------------------------------------------------------- IFS / SWITCH
    def c_branches(self, spec, rec):
        rnd = self.rng(spec)
        L = 'abcde'
        for _ in range(spec['n']):
            n = rnd.randint(1, 5)
            conds = [rnd.choice(VALS) if rnd.random() < 0.85 else rnd.choice(RARE) for _ in range(n)]
            res = [rnd.randint(10, 99) for _ in range(n)]
            for i, (c, r) in enumerate(zip(conds, res)):
                self.e.bind(**{'c_' + L[i]: c, 'r_' + L[i]: r})
            f = 'IFS(%s)' % ','.join('c_%s,r_%s' % (x, x) for x in L[:n])
            exp = next((r for c, r in zip(conds, res) if tv(c)), 'ERR:#N/A')
            g = self.ev(f)
            self.expect('C12/IFS', g == exp, formula=f, conditions=conds, results=res, got=g, expected=exp)
            if exp == 'ERR:#N/A':
                trio = (self.ev('ISNA(%s)' % f), self.ev('IFNA(%s,"none")' % f), self.ev('ERROR.TYPE(%s)' % f), self.ev('ISERR(%s)' % f))
                self.expect('C12/IFS:no-match-is-not-#N/A-to-ISNA-IFNA-ERROR.TYPE', trio == (True, 'none', 7, False), formula=f, got=trio)
            rec.nt(('IFS', tuple(conds), tuple(res)))
            kind = rnd.choice(['num', 'text'])
            pool = [1, 2, 3, 4.5, 2.0, -1, 0] if kind == 'num' else ['a', 'b', 'A', 'ab', '', 'B']
            target = rnd.choice(pool)
            cases = [rnd.choice(pool) for _ in range(n)]
            hasdef = rnd.random() < 0.5
            self.e.bind(t_gt=target)
            for i, c in enumerate(cases):
                self.e.bind(**{'k_' + L[i]: c})
            if rnd.random() < 0.5:
                # results drawn from the same values as the cases: a result that equals the target is not a case
                res = [rnd.choice(pool) for _ in range(n)]
                for i, r in enumerate(res):
                    self.e.bind(**{'r_' + L[i]: r})
            dflt = 'dflt'
            dtxt = ',"dflt"'
            if hasdef and rnd.random() < 0.4:
                # a default clause that is blank, zero, FALSE or empty text is a default clause all the same
                dflt = rnd.choice([None, 0, False, '', 0.0])
                self.e.bind(d_ft=dflt)
                dtxt = rnd.choice([',d_ft', ',d_ft', ',NULL' if dflt is None else ',d_ft'])
            f = 'SWITCH(t_gt,%s%s)' % (','.join('k_%s,r_%s' % (x, x) for x in L[:n]), dtxt if hasdef else '')
            exp = next((r for c, r in zip(cases, res) if c == target), dflt if hasdef else 'ERR:#N/A')
            g = self.ev(f)
            self.expect('C12/SWITCH' + (':falsy-default' if (hasdef and dflt != 'dflt') else ''), (g is None if exp is None else (g == exp and (self.is_err(exp) or type(g) is type(exp)))), formula=f, target=target, cases=cases, results=res, default=hasdef, got=g, expected=exp)
            if exp == 'ERR:#N/A':
                trio = (self.ev('ISNA(%s)' % f), self.ev('IFNA(%s,"none")' % f), self.ev('ERROR.TYPE(%s)' % f), self.ev('ISERR(%s)' % f))
                self.expect('C12/SWITCH:no-match-is-not-#N/A-to-ISNA-IFNA-ERROR.TYPE', trio == (True, 'none', 7, False), formula=f, got=trio)
            rec.nt(('SWITCH', target, tuple(cases), tuple(res), hasdef))
            x = rnd.choice(VALS)
            a, b = rnd.choice([1, 'x', None, True, 2.5]), rnd.choice([2, 'y', False, 0])
            g = self.ev('IF(v_x,v_a,v_b)', v_x=x, v_a=a, v_b=b)
            exp = a if tv(x) else b
            self.expect('C12/IF', g is exp or (g == exp and type(g) is type(exp)), cond=x, then=a, otherwise=b, got=g)
            # an error in the branch that is NOT chosen is not the value of IF; one in the chosen branch is
            ERRB = [('1/0', 'ERR:#DIV/0!'), ('NA()', 'ERR:#N/A'), ('v_m', 'ERR:#NUM!'), ('v_e', 'ERR:#REF!'), ('"a"+1', 'ERR:#VALUE!')]
            (ta, ea), (tb, eb) = rnd.choice(ERRB + [('v_a', a)] * 3), rnd.choice(ERRB + [('v_b', b)] * 3)
            if ta != 'v_a' or tb != 'v_b':
                f2 = 'IF(v_x,%s,%s)' % (ta, tb)
                g = self.ev(f2, v_x=x, v_a=a, v_b=b, v_e=self.objs['#REF!'], v_m=self.objs['#NUM!'])
                exp = ea if tv(x) else eb
                self.expect('C12/IF:error-in-a-branch', g is exp or (g == exp and type(g) is type(exp)), formula=f2, cond=x, then=ea, otherwise=eb, got=g)
                g = self.ev('IFERROR(%s,"trapped")' % f2)
                self.expect('C12/IF:error-in-a-branch', g == ('trapped' if self.is_err(exp) else exp), formula='IFERROR(%s,"trapped")' % f2, cond=x, got=g)
                rec.nt(('IF-err', repr(x), ta, tb))
            rec.sample({'formula': f, 'target': repr(target), 'cases': repr(cases)})

    # ---------------------------------------------------------------- predicates
    def c_predicates(self, spec, rec):
        rnd = self.rng(spec)
        objs = self.objs
        XL = hx.errors().XLError
        import enum
        Colour = enum.IntEnum('Colour', 'RED GREEN')
        allv = {'number': [0, 1, -2.5, 10 ** 12, 1e-9, -7, 3.0, -0.0, 5e-324, 1e308, 2 ** 80, -(10 ** 30),
                           Colour.GREEN, type('Money', (float,), {})(2.5), type('Count', (int,), {})(7), type('Money', (float,), {})(0.0)],
                'text': ['', 'a', '1', 'TRUE', '#N/A', ' ', 'FALSE', '0', '\U00020000', type('Label', (str,), {})('x'), '1/0', 'NULL'], 'logical': [True, False],
                'blank': [None], 'error': [objs[c] for c in CODES9] + [XL('#N/A'), XL('#VALUE!'), XL('#CUSTOM!'), type('HostXL', (XL,), {})('#REF!')]}
        for _ in range(spec['n']):
            allv['number'].append(rnd.choice([rnd.randint(-10 ** 9, 10 ** 9), rnd.uniform(-1e6, 1e6)]))
            allv['text'].append(''.join(rnd.choice('abc 12.#é') for _ in range(rnd.randint(0, 6))))
        preds = ['ISNUMBER', 'ISTEXT', 'ISLOGICAL', 'ISBLANK', 'ISERROR']
        cur = [None]
        self.e.p.on('callCellValue', lambda c, s: s(cur[0]) if c.label.upper() == 'PQ9' else None)
        self.e.p.on('callRangeValue', lambda a, b, s: s([cur[0]]) if a.label.upper() == 'PQ9' else None)
        self.e.p.set_function('GIVEV', lambda *a: cur[0])
        for cls, vs in allv.items():
            for nv, v in enumerate(vs):
                got = [self.ev(f + '(v_x)', v_x=v) for f in preds]
                exp = [cls == 'number', cls == 'text', cls == 'logical', cls == 'blank', cls == 'error']
                self.expect('C12/predicates-on-' + cls, got == exp and all(isinstance(g, bool) for g in got), value=v, got=dict(zip(preds, got)))
                # the class of a value does not depend on the route by which it arrives: a cell, a custom function's result, an IF branch
                cur[0] = v
                for route in ('PQ9', 'GIVEV()', 'IF(TRUE,v_x,1)', '(v_x)', 'INDEX(PQ9:PQ10,1)') if (nv < 40 or nv % 25 == 0) else ():
                    if route.startswith('INDEX') and cls == 'blank':
                        continue
                    gr = [self.ev('%s(%s)' % (f, route), v_x=v) for f in preds + ['ISNONTEXT']]
                    self.expect('C12/predicates-on-%s:value-arrives-through-%s' % (cls, route.split('(')[0] or 'parentheses'), gr == exp + [cls != 'text'], value=v, route=route,
                                got=dict(zip(preds + ['ISNONTEXT'], gr)))
                g = self.ev('ISNONTEXT(v_x)', v_x=v)
                self.expect('C12/ISNONTEXT', g is (cls != 'text'), value=v, got=g)
                a, b, c = self.ev('ISERROR(v_x)', v_x=v), self.ev('ISERR(v_x)', v_x=v), self.ev('ISNA(v_x)', v_x=v)
                self.expect('C12/ISERROR=ISERR-or-ISNA', all(isinstance(z, bool) for z in (a, b, c)) and a == (b or c), value=v, got=(a, b, c))
                rec.nt(('pred', repr(v)))
        nums = list(range(-9, 10)) + [-2.5, -1.5, -0.5, 0.5, 1.5, 2.5, 3.999, -3.999, 10 ** 15 + 1, 2 ** 53, -2 ** 40 - 1, 1e15, 7.0, -8.0]
        nums += [rnd.choice([rnd.randint(-10 ** 12, 10 ** 12), round(rnd.uniform(-1000, 1000), 2)]) for _ in range(spec['n'])]
        for x in nums:
            e_, o_ = self.ev('ISEVEN(v_x)', v_x=x), self.ev('ISODD(v_x)', v_x=x)
            par = int(x) % 2 == 0
            ok = e_ in (True, False, 0, 1) and o_ in (True, False, 0, 1) and bool(e_) == par and bool(o_) == (not par)
            self.expect('C12/parity', ok, number=x, iseven=e_, isodd=o_)
            rec.nt(('parity', x))
        rec.sample({'predicates_on': repr(allv['number'][-1])})

    def c_sentinels(self, spec, rec):
        for f, exp in (('AND(TRUE,1,-2)', True), ('AND(TRUE,0)', False), ('OR(FALSE,0,NULL)', False), ('OR(0,0.5)', True), ('XOR(TRUE,TRUE,1)', True),
                       ('XOR(TRUE,1)', False), ('NOT(0)', True), ('NOT(NULL)', True), ('AND({TRUE,1},{1,0})', False), ('IF(0.5,"y","n")', 'y'),
                       ('IFS(0,1,NULL,2,-2,3)', 3), ('IFS(0,1)', 'ERR:#N/A'), ('SWITCH(2,1,"a",2,"b",2,"c")', 'b'), ('SWITCH(9,1,"a","d")', 'd'),
                       ('SWITCH(9,1,"a")', 'ERR:#N/A'), ('AND(1/0)', 'ERR:#DIV/0!'), ('NOT(1/0)', 'ERR:#DIV/0!'), ('IF(1/0,1,2)', 'ERR:#DIV/0!'),
                       ('IFS(0,1,NA(),2)', 'ERR:#N/A'), ('OR(TRUE,1/0)', 'ERR:#DIV/0!')):
            g = self.ev(f)
            key = 'C12/' + ('error-condition-in-' + f.split('(')[0] if isinstance(exp, str) and exp.startswith('ERR:#') and 'N/A' not in exp or f == 'IFS(0,1,NA(),2)' else f.split('(')[0] + '-sentinel')
            self.expect(key, g == exp and type(g) is type(exp), formula=f, got=g, expected=exp)
            rec.nt(f)
