"""C18 - lookup functions return the addressed element or an error, never another one.

Boundary recorder vs plain index arithmetic: CHOOSE / INDEX over all index combinations -10..size+10 (and omitted)
on 1-D and 2-D arrays of distinct numbers or text, written as literals and supplied as variables and ranges;
MATCH of the three types on sorted arrays with duplicates, zeros and negatives, and wildcard text matching.
The argument-snapshot contract (contracts.py) watches that no lookup mutates its array.
"""
import fnmatch

from .common import FormulaCheck
from ..oracle import canon
from .. import hx


def arr_literal(a):
    def L(x):
        return hx.strlit(x) if isinstance(x, str) else hx.lit(x)
    if a and isinstance(a[0], list):
        return '{' + ';'.join(','.join(L(x) for x in row) for row in a) + '}'
    return '{' + ','.join(L(x) for x in a) + '}'


class Check(FormulaCheck):
    ID = 'C18'
    TITLE = 'Lookup functions return the addressed element or an error, never another one'
    TECHNIQUE = 'boundary recorder on Parser.parse vs index-arithmetic model; exhaustive index combinations on small arrays'
    RULE = ('case = one CHOOSE/INDEX/MATCH call. INDEX: every (row, column) in -10..size+10 plus omitted, on 1-D arrays (length 1-8) and 2-D arrays '
            '(all shapes up to 4x4 quick / 8x8 thorough) of distinct numbers or text, as literal, variable or range value; MATCH types 0/1/-1 on '
            'ascending/descending arrays with duplicates, zeros, negatives, present/absent/below/above lookups, wildcards. non-trivial = compared '
            'with the model; distinct = distinct (function, array, indices, injection).')
    ASSUMPTIONS = ('the two-index form on a 1-D array may read it as a row or as a column (or refuse), but must not answer anything neither reading addresses; area_num is unspecified; MATCH arrays are homogeneous (INDEX arrays also mix numbers, text, logicals and date-times)',
                   'fractional indices need only give an error or the truncated position',
                   'INDEX with every given index 0/omitted may return the whole array or an error',
                   'MATCH types 1/-1: any position holding the qualifying extreme value is accepted (duplicates)')

    def plan(self, tier, seed):
        q = tier == 'quick'
        specs = [{'campaign': 'sentinels'}]
        maxdim = 4 if q else 8
        shapes = [(r, c) for r in range(1, maxdim + 1) for c in range(1, maxdim + 1)]
        for i in range(16):
            specs.append({'campaign': 'index', 'seed': seed, 'i': i, 'shapes': shapes[i::16], 'oned': [n for n in range(1, 9)][i::16] if i < 8 else []})
            specs.append({'campaign': 'match', 'seed': seed, 'i': i, 'n': 1500 if q else 20000})
            specs.append({'campaign': 'choose', 'seed': seed, 'i': i, 'n': 500 if q else 6000})
        return specs

    def prepare(self, spec, rec):
        self.range_value = None
        self.e.p.on('callRangeValue', lambda a, b, setter: setter(self.range_value))

    def inject(self, arr, rnd):
        """formula text denoting `arr`, by literal, variable or range"""
        how = rnd.choice(['lit', 'var', 'range'])
        if how == 'lit' and arr and isinstance(arr[0], list) and not (len(arr) == 2 and len(arr[0]) >= 2):
            how = 'var'         # only two-row literals with rows of 2+ elements are array-of-rows literals (C05)
        if how == 'lit' and any(isinstance(x, bool) or not isinstance(x, (int, float, str)) for x in self.elements(arr)):
            how = 'var'         # date-times have no literal form (and logicals are kept as host values)
        if how == 'lit':
            return arr_literal(arr), how
        if how == 'var':
            self.e.bind(v_arr=arr)
            return 'v_arr', how
        self.range_value = arr
        # the range is written with the corners it really has (a single cell for one item, one row / one column for a 1-D array):
        # nothing about a range's value may depend on how small the range is
        from ..models import cells as mcells
        if arr and isinstance(arr[0], list):
            rows, cols = len(arr), len(arr[0])
        elif rnd.random() < 0.5:
            rows, cols = 1, max(1, len(arr))
        else:
            rows, cols = max(1, len(arr)), 1
        r0, c0 = rnd.randint(0, 30), rnd.randint(0, 40)
        a, b = '%s%d' % (mcells.col_label(c0), r0 + 1), '%s%d' % (mcells.col_label(c0 + cols - 1), r0 + rows)
        if rnd.random() < 0.3:
            a, b = rnd.choice([(b, a), ('$' + a, b), (a.lower(), b)])
        return '%s:%s' % (a, b), how

    # ------------------------------------------------------------------ INDEX
    def elements(self, arr):
        out = []
        for x in arr:
            if isinstance(x, list):
                out += x
            else:
                out.append(x)
        return out

    def judge_index(self, arr, r, c, rnd, twod):
        """r, c: int or None (omitted)"""
        rec = self.rec
        a_txt, how = self.inject(arr, rnd)
        snapshot = canon(arr)
        if c is None:
            f = 'INDEX(%s,%s)' % (a_txt, hx.lit(r)) if r is not None else None
        elif r is None:
            f = 'INDEX(%s,,%s)' % (a_txt, hx.lit(c))
        else:
            f = 'INDEX(%s,%s,%s)' % (a_txt, hx.lit(r), hx.lit(c))
        if f is None:
            return
        g = self.ev(f)
        rec.nt((f, repr(arr) if how != 'lit' else ''))
        rec.cov('injection', how)
        if rnd.random() < 0.2:
            # a position is a position whether it is held as an int or as a float (4/2 is the second one)
            f2 = 'INDEX(%s,%s%s)' % (a_txt, 'v_r' if r is not None else '', ',v_c' if c is not None else '')
            g2 = self.ev(f2, v_r=float(r) if r is not None else None, v_c=float(c) if c is not None else None)
            same = (self.is_err(g) and self.is_err(g2)) or canon(g2) == canon(g)
            self.expect('C18/INDEX:position-held-as-float', same, formula=f, with_float_positions=g2, with_int_positions=g, array=arr)
        self.expect('C18/INDEX-mutates-its-array', canon(arr) == snapshot, formula=f, array=arr)
        R = len(arr)
        C = len(arr[0]) if twod else None
        whole = arr
        key = 'C18/INDEX-%s' % ('2d' if twod else '1d')
        neg = (r is not None and r < 0) or (c is not None and c < 0)
        tag = ':negative-index' if neg else (':zero-index' if (r == 0 or c == 0) else '')
        if not twod:
            i = r if c is None else (c if r is None else None)
            if i is None:
                # both indices on a 1-D array: whether it lies as a row or as a column is not specified, so every reading is
                # accepted - but the answer must be the element one of them addresses, the whole array, or an error
                cands = []
                if c in (0, 1) and 1 <= r <= R:
                    cands.append(arr[r - 1])
                if r in (0, 1) and 1 <= c <= R:
                    cands.append(arr[c - 1])
                whole_ok = (r == 0 and c in (0, 1)) or (c == 0 and r in (0, 1))
                ok = self.is_err(g) or any(g == x and type(g) is type(x) for x in cands) or (whole_ok and g == whole)
                self.expect(key + ':two-indices-yield-something-not-addressed' + tag, ok, formula=f, array=arr, got=g,
                            accepted=cands + ['an error'] + (['the whole array'] if whole_ok else []))
                return
            if 1 <= i <= R:
                self.expect(key + ':wrong-element', g == arr[i - 1] and type(g) is type(arr[i - 1]), formula=f, array=arr, got=g, expected=arr[i - 1])
            elif i == 0:
                self.expect(key + ':position-0-yields-an-element' + tag, self.is_err(g) or g == whole, formula=f, array=arr, got=g)
            else:
                self.expect(key + ':position-outside-yields-a-value' + tag, self.is_err(g), formula=f, array=arr, got=g)
                if rnd.random() < 0.2 and self.is_err(g):
                    tri = (self.ev('ISERROR(%s)' % f), self.ev('IFERROR(%s,"e")' % f), self.ev('ISERR(%s)' % f) is True or self.ev('ISNA(%s)' % f) is True)
                    self.expect(key + ':outside-error-not-seen-by-ISERROR-IFERROR', tri == (True, 'e', True), formula=f, array=arr, got=tri)
            return
        rr = None if (r is None or r == 0) else r
        cc = None if (c is None or c == 0) else c
        if (rr is not None and not 1 <= rr <= R) or (cc is not None and not 1 <= cc <= C):
            self.expect(key + ':position-outside-yields-a-value' + tag, self.is_err(g), formula=f, array=arr, got=g)
        elif rr is not None and cc is not None:
            self.expect(key + ':wrong-element', g == arr[rr - 1][cc - 1] and type(g) is type(arr[rr - 1][cc - 1]), formula=f, array=arr, got=g, expected=arr[rr - 1][cc - 1])
        elif rr is not None:
            self.expect(key + ':wrong-row' + tag, g == arr[rr - 1], formula=f, array=arr, got=g, expected=arr[rr - 1])
        elif cc is not None:
            col = [row[cc - 1] for row in arr]
            self.expect(key + ':wrong-column' + tag, g == col, formula=f, array=arr, got=g, expected=col)
        else:
            self.expect(key + ':all-indices-zero-or-omitted-yields-part' + tag, self.is_err(g) or g == whole, formula=f, array=arr, got=g)

    def mkarray(self, rnd, n, kind):
        if kind == 'num':
            vals = rnd.sample(range(-50, 200), n)
            return [v if rnd.random() < 0.7 else v + 0.5 for v in vals]
        if kind == 'mixed':       # INDEX does not look at what the elements are: numbers, text, logicals and date-times side by side
            import datetime
            pool = [v + 0.25 for v in range(-30, 30)] + list(range(100, 160)) + ['apple', 'Pear', 'x y', '12', 'TRUE', '#N/A', 'a,b'] + \
                   [datetime.datetime(2000 + k, 1 + k % 12, 1 + k % 28) for k in range(20)]
            vals = rnd.sample(pool, n)
            if n >= 2:
                vals[rnd.randrange(n)] = rnd.choice([True, False])
            return vals
        words = ['apple', 'pear', 'Plum', 'fig', 'kiwi', 'Lime', 'date', 'nut', 'yam', 'pea', 'oat', 'rye', 'bean', 'corn', 'leek', 'kale', 'a,b', 'x y', '']
        # (suffixes include the characters that pattern languages other than * and ? give a meaning to: an item is found by its own text)
        pool = [w + s for s in ('', '2', '_z', '!', '[1]', ']', '[a-z]', '[!x]', '(1)', '+', '.', '^$', '{2}', '|') for w in words]
        out = rnd.sample(pool, n)
        if n >= 2 and rnd.random() < 0.3:
            # the same text more than once (up to letter case): MATCH type 0 answers with the FIRST position
            i, j = rnd.sample(range(n), 2)
            out[j] = rnd.choice([out[i], out[i].upper(), out[i].lower(), out[i].title()])
        return out

    def c_index(self, spec, rec):
        rnd = self.rng(spec)
        idx = list(range(-10, 0)) + [0]
        for n in spec['oned']:
            for kind in ('num', 'text', 'mixed'):
                arr = self.mkarray(rnd, n, kind)
                for i in idx + list(range(1, n + 11)):
                    self.judge_index(arr, i, None, rnd, False)
                    if rnd.random() < 0.3:
                        self.judge_index(arr, None, i, rnd, False)
                for r in range(-2, n + 3):
                    for c in range(-2, n + 3):
                        self.judge_index(arr, r, c, rnd, False)
        for (R, C) in spec['shapes']:
            for kind in ('num', 'text', 'mixed'):
                flat = self.mkarray(rnd, R * C, kind)
                arr = [flat[k * C:(k + 1) * C] for k in range(R)]
                rs = idx + list(range(1, R + 11)) + [None]
                cs = idx + list(range(1, C + 11)) + [None]
                for r in rs:
                    for c in cs:
                        if r is None and c is None:
                            continue
                        self.judge_index(arr, r, c, rnd, True)
                rec.sample({'array': arr, 'rows': R, 'cols': C})

    # ------------------------------------------------------------------ MATCH
    def c_match(self, spec, rec):
        rnd = self.rng(spec)
        for _ in range(spec['n']):
            n = rnd.randint(1, 8)
            vals = sorted(rnd.choice([rnd.randint(-5, 5), rnd.randint(-50, 50), 0, rnd.choice([-0.5, 0.5, 2.5])]) for _ in range(n))
            if rnd.random() < 0.15:
                # items a few ulps apart (0.1+0.2 beside 0.3): different numbers, and sorted as such
                import math
                b = rnd.choice([0.3, 0.1 * 7, 1.0, rnd.uniform(0.1, 100), 0.1 + 0.2])
                chain = [b]
                for _ in range(rnd.randint(1, 4)):
                    chain.append(math.nextafter(chain[-1], math.inf))
                vals = sorted(set(rnd.sample(chain, rnd.randint(1, len(chain))) + [rnd.choice([0.1, 0.2, 0.5, 0.9, -1])]))
                n = len(vals)
            present = rnd.random() < 0.6
            x = rnd.choice(vals) if present else rnd.choice([min(vals) - rnd.randint(1, 3), max(vals) + rnd.randint(1, 3), rnd.randint(-60, 60) + 0.25,
                                                              __import__('math').nextafter(rnd.choice(vals), rnd.choice([-1e9, 1e9]))])
            # type 0 on an arbitrary permutation
            perm = vals[:]
            rnd.shuffle(perm)
            a_txt, how = self.inject(perm, rnd)
            g = self.ev('MATCH(%s,%s,0)' % (hx.lit(x), a_txt))
            exp = next((i + 1 for i, v in enumerate(perm) if v == x), 'ERR:#N/A')
            self.expect('C18/MATCH-exact', g == exp, array=perm, x=x, got=g, expected=exp, injected=how)
            if exp == 'ERR:#N/A' and rnd.random() < 0.5:
                # "none" is #N/A to every function that looks at errors, not only at the top of the formula
                fm = 'MATCH(%s,%s,0)' % (hx.lit(x), a_txt)
                quad = (self.ev('ISNA(%s)' % fm), self.ev('IFNA(%s,"none")' % fm), self.ev('ERROR.TYPE(%s)' % fm), self.ev('ISERR(%s)' % fm), self.ev('IFERROR(%s,"e")' % fm))
                self.expect('C18/MATCH:none-is-not-#N/A-to-ISNA-IFNA-ERROR.TYPE', quad == (True, 'none', 7, False, 'e'), formula=fm, array=perm, got=quad)
            # the same number given in the other representation (2 / 2.0, as host value): equal is equal
            if isinstance(x, (int, float)) and x == int(x):
                other = float(x) if isinstance(x, int) else int(x)
                g = self.ev('MATCH(v_x,%s,0)' % a_txt, v_x=other)
                self.expect('C18/MATCH-exact:int-float-representation', g == exp, array=perm, x=other, x_type=type(other).__name__, got=g, expected=exp, injected=how)
                if exp != 'ERR:#N/A':
                    g = self.ev('INDEX(%s,MATCH(v_x,%s,0))' % (a_txt, a_txt), v_x=other)
                    self.expect('C18/INDEX(MATCH)=x', g == x, array=perm, x=other, got=g)
            rec.nt(('m0', tuple(perm), x, how))
            if exp != 'ERR:#N/A':
                g = self.ev('INDEX(%s,MATCH(%s,%s,0))' % (a_txt, hx.lit(x), a_txt))
                self.expect('C18/INDEX(MATCH)=x', g == x, array=perm, x=x, got=g)
            # type 1 ascending
            a_txt, how = self.inject(vals, rnd)
            for f in ('MATCH(%s,%s,1)', 'MATCH(%s,%s)'):
                g = self.ev(f % (hx.lit(x), a_txt))
                le = [v for v in vals if v <= x]
                if not le:
                    ok = g == 'ERR:#N/A'
                else:
                    ok = isinstance(g, int) and not isinstance(g, bool) and 1 <= g <= n and vals[g - 1] == max(le)
                self.expect('C18/MATCH-ascending-type-1' + (':zero-candidate' if le and max(le) == 0 else ''), ok, array=vals, x=x, got=g, formula=f)
            rec.nt(('m1', tuple(vals), x))
            desc = vals[::-1]
            a_txt, how = self.inject(desc, rnd)
            g = self.ev('MATCH(%s,%s,-1)' % (hx.lit(x), a_txt))
            ge = [v for v in desc if v >= x]
            if not ge:
                ok = g == 'ERR:#N/A'
            else:
                ok = isinstance(g, int) and not isinstance(g, bool) and 1 <= g <= n and desc[g - 1] == min(ge)
            self.expect('C18/MATCH-descending-type--1' + (':zero-candidate' if ge and min(ge) == 0 else ''), ok, array=desc, x=x, got=g)
            rec.nt(('m-1', tuple(desc), x))
            # text: case-insensitive, wildcards
            words = self.mkarray(rnd, rnd.randint(1, 8), 'text')
            words = [w for w in words if w] or ['apple']
            pristine = list(words)            # an independent copy: the array handed to the library is the host's own object
            a_txt, how = self.inject(words, rnd)
            w = rnd.choice(words)
            k = rnd.random()
            if k < 0.3:
                pat = w.upper() if rnd.random() < 0.5 else w.lower()
            elif k < 0.5:
                pat = w[:rnd.randint(0, len(w))] + '*'
            elif k < 0.65:
                pat = '*' + w[rnd.randint(0, len(w)):]
            elif k < 0.8 and len(w) > 0:
                j = rnd.randrange(len(w))
                pat = w[:j] + '?' + w[j + 1:]
            else:
                pat = rnd.choice(['zzz', 'a?', '*q*', 'apple pie', w + 'x'])
            if '"' in pat:
                continue
            # only * and ? are wildcards (the oracle is written without fnmatch, which also reads [...] as a character class)
            from .c11 import wild
            exp = next((i + 1 for i, v in enumerate(words) if wild(pat.lower(), v.lower())), 'ERR:#N/A')
            g = self.ev('MATCH(%s,%s,0)' % (hx.strlit(pat), a_txt))
            self.expect('C18/MATCH-text' + (':wildcard' if ('*' in pat or '?' in pat) else ':case'), g == exp, array=words, pattern=pat, got=g, expected=exp)
            rec.nt(('mt', tuple(words), pat))
            self.expect('C18/MATCH-mutates-its-array', words == pristine, array=pristine, after=words, pattern=pat, injected=how)
            if exp != 'ERR:#N/A' and '*' not in pat and '?' not in pat:
                g = self.ev('INDEX(%s,MATCH(%s,%s,0))' % (a_txt, hx.strlit(pat), a_txt))
                # the element itself comes back, spelled as the host spelled it (the lookup is case-insensitive, the array is not rewritten)
                self.expect('C18/INDEX(MATCH)=x', isinstance(g, str) and g == pristine[exp - 1], array=pristine, x=pat, got=g, expected=pristine[exp - 1])
                words[:] = pristine
            rec.sample({'array': vals, 'lookup': x})

    # ------------------------------------------------------------------ CHOOSE
    def c_choose(self, spec, rec):
        rnd = self.rng(spec)
        for _ in range(spec['n']):
            n = rnd.randint(1, 8)
            vals = self.mkarray(rnd, n, rnd.choice(['num', 'text']))
            for i in list(range(-3, n + 4)):
                for k, v in enumerate(vals):
                    self.e.bind(**{hx.varname(k, 'it'): v})
                f = 'CHOOSE(%s,%s)' % (hx.lit(i), ','.join(hx.varname(k, 'it') for k in range(n)))
                g = self.ev(f)
                rec.nt(('choose', i, tuple(vals)))
                if 1 <= i <= n:
                    self.expect('C18/CHOOSE:wrong-value', g == vals[i - 1] and type(g) is type(vals[i - 1]), index=i, values=vals, got=g)
                    g2 = self.ev('CHOOSE(v_i,%s)' % ','.join(hx.varname(k, 'it') for k in range(n)), v_i=float(i))
                    self.expect('C18/CHOOSE:position-held-as-float', g2 == vals[i - 1] and type(g2) is type(vals[i - 1]), index=float(i), values=vals, got=g2)
                else:
                    self.expect('C18/CHOOSE:index-outside-yields-a-value', self.is_err(g), index=i, values=vals, got=g)
            rec.sample({'formula': f})
            # a value may itself be an array (a literal, a host list, a range): vi is that array, whole - and an index beyond the
            # VALUES is an error however many items the arrays hold
            from ..oracle import canon
            arrs = [('{1,2,3}', [1, 2, 3]), ('{4;5}', [4, 5]), ('{1,2;3,4}', [[1, 2], [3, 4]]), ('v_arr', [7, 8, 9]), ('v_grid', [[1, 2], [3, 4]]), ('A1:B2', 'range'), ('{5}', [5]), ('v_one', [6])]
            self.e.bind(v_arr=[7, 8, 9], v_grid=[[1, 2], [3, 4]], v_one=[6])
            m = rnd.randint(1, 3)
            picks = [rnd.choice(arrs) if rnd.random() < 0.7 else ('11', 11) for _ in range(m)]
            for i in range(0, m + 3):
                f = 'CHOOSE(%d,%s)' % (i, ','.join(t for t, _ in picks))
                g = self.ev(f)
                rec.nt(('choose-arrays', i, tuple(t for t, _ in picks)))
                if 1 <= i <= m:
                    want = picks[i - 1][1]
                    if want == 'range':
                        want = self.ev('A1:B2')
                    self.expect('C18/CHOOSE:wrong-value:array-valued', canon(g) == canon(want), formula=f, got=g, expected=want)
                else:
                    self.expect('C18/CHOOSE:index-outside-yields-a-value:array-valued', self.is_err(g), formula=f, got=g)
        # the longest list the function takes (254 values): the last positions still address their own value
        vals = list(range(1000, 1254))
        for k, v in enumerate(vals):
            self.e.bind(**{hx.varname(k, 'it'): v})
        names = ','.join(hx.varname(k, 'it') for k in range(254))
        for i in (1, 2, 127, 128, 252, 253, 254, 255, 256, 0, -1):
            g = self.ev('CHOOSE(%d,%s)' % (i, names))
            rec.nt(('choose254', i))
            if 1 <= i <= 254:
                self.expect('C18/CHOOSE:wrong-value:long-list', g == vals[i - 1], index=i, values='1000..1253', got=g)
            else:
                self.expect('C18/CHOOSE:index-outside-yields-a-value:long-list', self.is_err(g), index=i, values='1000..1253', got=g)

    def c_sentinels(self, spec, rec):
        import random
        rnd = random.Random(3)
        for arr, r, c, twod in (([10, 20, 30], -2, None, False), ([10, 20, 30], 0, None, False), ([10, 20, 30], -1, None, False), ([10, 20, 30], 4, None, False),
                                ([[1, 2, 3], [4, 5, 6]], 0, None, True), ([[1, 2, 3], [4, 5, 6]], -1, 1, True), ([[1, 2, 3], [4, 5, 6]], 1, -1, True),
                                ([[1, 2, 3], [4, 5, 6]], 2, 3, True), ([[1, 2, 3], [4, 5, 6]], 0, 2, True), ([[1, 2, 3], [4, 5, 6]], 2, 0, True),
                                ([[1, 2, 3], [4, 5, 6]], 3, 1, True), ([[1, 2, 3], [4, 5, 6]], None, 3, True), ([[1, 2, 3], [4, 5, 6]], 0, 0, True)):
            for _ in range(3):
                self.judge_index(arr, r, c, rnd, twod)
        # a range of one cell answered with a one-item list is an array of one item
        for x in (7, 'kiwi', 2.5):
            for lab in ('A1:A1', '$B$2:B2', 'c3:C3'):
                self.range_value = [x]
                X = hx.strlit(x) if isinstance(x, str) else hx.lit(x)
                for f, exp in (('INDEX(%s,1)' % lab, x), ('MATCH(%s,%s,0)' % (X, lab), 1), ('INDEX(%s,MATCH(%s,%s,0))' % (lab, X, lab), x), ('MATCH(%s,%s,1)' % (X, lab), 1) if not isinstance(x, str) else ('INDEX(%s,1)' % lab, x)):
                    g = self.ev(f)
                    self.expect('C18/one-cell-range-is-not-an-array-of-one-item', g == exp and type(g) is type(exp), formula=f, host_value=[x], got=g, expected=exp)
        g = self.ev('MATCH(0,{-3,0,2},1)')
        self.expect('C18/MATCH-ascending-type-1:zero-candidate', g == 2, got=g)
        g = self.ev('MATCH("AP*",{"pear","Apple"},0)')
        self.expect('C18/MATCH-text:wildcard', g == 2, got=g)
