"""C10 - reference events deliver canonical coordinates, once, in evaluation order.

The library's own hook mechanism is the monitor: listeners on callCellValue / callRangeValue / callVariable /
callFunction append (kind, payload) to one log; the expected log is the post-order traversal of the generating tree
with coordinates computed by an independent bijective base-26 model.  A second campaign drives the setter protocol
(0-4 listeners per event calling the setter 0-3 times with values of every type) on single references.
The cell contracts of contracts.py (C19) are active on every label that flows through.
"""
import string

from .common import FormulaCheck
from ..oracle import canon
from ..models import cells as M
from .. import hx

NCOLS4 = 26 + 26 ** 2 + 26 ** 3 + 26 ** 4


def rand_cell(rnd):
    k = rnd.random()
    if k < 0.35:
        ci = rnd.randrange(0, 16384)
    elif k < 0.85:
        ci = rnd.choice([0, 25, 26, 27, 701, 702, 16383, 18277, 18278, NCOLS4 - 1, rnd.randrange(0, NCOLS4)])
    elif k < 0.95:
        ci = rnd.randrange(0, 26 ** 6)
    else:
        ci = rnd.randrange(26 ** 9, 26 ** rnd.choice([11, 12, 13, 14, 16, 20]))      # column names of 10-20 letters: exact in whole-number arithmetic only
    ri = rnd.choice([0, 1, 8, 9, 98, 99, 1048575, 1048576, rnd.randrange(0, 1048576), rnd.randrange(0, 2000), rnd.randrange(0, 10 ** 9)])
    if rnd.random() < 0.3:          # small coordinates: every (row, column) pair below 40 is met many times
        ci, ri = rnd.randrange(0, 40), rnd.randrange(0, 40)
    ca, ra = rnd.random() < 0.35, rnd.random() < 0.35
    col = ''.join(c.lower() if rnd.random() < 0.4 else c for c in M.col_label(ci))
    return ('$' if ca else '') + col + ('$' if ra else '') + str(ri + 1), (ri, ra, ci, ca)


def cell_value(ri, ci):
    return (ri % 97) * 10 + (ci % 7) + 1


RANGE_VALUE = [[1, 2], [3, 4]]
# (names that start like a cell reference and go on - x12y, FY2024Q - are variables, one event each, like any other)
VARS = {'foo': 5, 'bar': 'txt', 'baz_q': 2.5, 'TRUE': True, 'NULL': None, 'lst': [7, 8], 'x12y': 3, 'FY2024Q': 4, 'rate10_pct': 6, 'a1b': 8, 'ab12cd34': 9, 'Q4_2024': 10, 'r2d2': 11}


class Gen(object):
    def __init__(self, rnd, failing_calls=False):
        self.rnd = rnd
        self.failing_calls = failing_calls

    def atom(self):
        r = self.rnd
        k = r.random()
        if k < 0.35:
            t, info = rand_cell(r)
            return ('cell', t, info)
        if k < 0.55:
            a, ia = rand_cell(r)
            b, ib = rand_cell(r)
            return ('range', a, ia, b, ib)
        if k < 0.75:
            return ('var', r.choice(list(VARS)))
        if k < 0.9:
            return ('n', r.randint(1, 9))
        return ('s', r.choice(['a', 'x y', '']))

    def arg(self, d):
        if d > 0 and self.rnd.random() < 0.35:
            return self.call(d - 1)
        return self.atom()

    def call(self, d):
        r = self.rnd
        name = r.choice(['FA', 'FB', 'F.c', 'SUM', 'MAX', 'COUNT', 'IF', 'CONCATENATE', 'NOW', 'PI'] + (['FR', 'FE', 'SUM', 'MAX'] if self.failing_calls else []))
        if name == 'IF':
            args = [self.arg(d) for _ in range(3)]
        elif name in ('NOW', 'PI'):
            args = []
        elif name in ('SUM', 'MAX', 'COUNT'):
            # arguments that let the built-in return normally: numeric atoms only
            args = []
            for _ in range(r.randint(1, 3)):
                a = self.atom()
                while a[0] in ('s',) or (a[0] == 'var' and a[1] in ('bar',)):
                    a = self.atom()
                if self.failing_calls and r.random() < 0.4:
                    # an error among the items: the built-in itself fails with it, and is still a call like any other
                    a = ('call', r.choice(['FR', 'FE']), [self.atom() for _ in range(r.randint(0, 2))])
                args.append(a)
        else:
            args = [self.arg(d) for _ in range(r.randint(0, 4))]
        return ('call', name, args)

    def expr(self, d):
        r = self.rnd
        if d <= 0 or r.random() < 0.3:
            return self.arg(1)
        k = r.random()
        if k < 0.4:
            return self.call(d)
        if k < 0.5:
            return ('paren', self.expr(d - 1))
        return ('b', r.choice(['&', '&', '=', '<']), self.expr(d - 1), self.expr(d - 1))


def render(t):
    k = t[0]
    if k == 'cell':
        return t[1]
    if k == 'range':
        return t[1] + ':' + t[3]
    if k == 'var':
        return t[1]
    if k == 'n':
        return str(t[1])
    if k == 's':
        return '"%s"' % t[1]
    if k == 'call':
        return t[1] + '(' + ','.join(render(a) for a in t[2]) + ')'
    if k == 'paren':
        return '(' + render(t[1]) + ')'
    return '(' + render(t[2]) + t[1] + render(t[3]) + ')'


def lab(ri, ra, ci, ca):
    return M.compose(ca, ci, ra, ri)


def expected_events(t, acc):
    """post-order list of events; each entry (kind, payload...)"""
    k = t[0]
    if k == 'cell':
        ri, ra, ci, ca = t[2]
        acc.append(('cell', t[1].upper(), ri, ra, ci, ca))
    elif k == 'range':
        (r1, ra1, c1, ca1), (r2, ra2, c2, ca2) = t[2], t[4]
        (sr, sra), (er, era) = ((r1, ra1), (r2, ra2)) if r1 <= r2 else ((r2, ra2), (r1, ra1))
        (sc, sca), (ec, eca) = ((c1, ca1), (c2, ca2)) if c1 <= c2 else ((c2, ca2), (c1, ca1))
        acc.append(('range', lab(sr, sra, sc, sca), sr, sra, sc, sca, lab(er, era, ec, eca), er, era, ec, eca))
    elif k == 'var':
        acc.append(('var', t[1]))
    elif k == 'call':
        for a in t[2]:
            expected_events(a, acc)
        acc.append(('fn', t[1], len(t[2])))
    elif k == 'paren':
        expected_events(t[1], acc)
    elif k == 'b':
        expected_events(t[2], acc)
        expected_events(t[3], acc)
    return acc


def corner_order(t):
    (r1, _, c1, _), (r2, _, c2, _) = t[2], t[4]
    return ('rows-%s' % ('asc' if r1 <= r2 else 'desc'), 'cols-%s' % ('asc' if c1 <= c2 else 'desc'))


class Check(FormulaCheck):
    ID = 'C10'
    TITLE = 'Reference events deliver canonical coordinates, once, in evaluation order'
    TECHNIQUE = 'listeners on the four events as boundary recorder vs post-order model with independent coordinate arithmetic; setter-protocol model'
    RULE = ('case = one generated formula with 1-30 cell/range/variable/call references (labels over columns A..XFD and to 6 letters, rows 1..1048576 and beyond, '
            'all $ patterns, random letter case, all four corner orders of ranges) whose event log is compared with the post-order traversal; or one single '
            'reference evaluated with 0-4 listeners calling the setter 0-3 times with values of every type. non-trivial = formula accepted and log compared; '
            'distinct = distinct formula (+ listener script).')
    ASSUMPTIONS = ('only formulas whose calls return normally or fail with an error value (a custom function raising or returning one, SUM/MAX given one); unknown names excluded (C09); IF evaluates both branches so both raise events',
                   'arguments of calls are atoms or nested calls so that the argument values delivered with callFunction are known to the model')

    def plan(self, tier, seed):
        q = tier == 'quick'
        specs = [{'campaign': 'sentinels'}]
        for i in range(16):
            specs.append({'campaign': 'order', 'seed': seed, 'n': 4000 if q else 110000, 'i': i})
            specs.append({'campaign': 'setters', 'seed': seed, 'n': 2500 if q else 60000, 'i': i})
        return specs

    # ------------------------------------------------------------------ order / payload
    def fresh(self):
        self.e = hx.Env()
        p = self.e.p
        self.log = []
        self.tokens = []
        for n, v in VARS.items():
            p.set_variable(n, v)

        def mk(name):
            def f(*a):
                tok = 'ret%d' % len(self.tokens)
                self.tokens.append((name, canon(list(a)), tok))
                return tok
            return f
        for n in ('FA', 'FB', 'F.c'):
            p.set_function(n, mk(n))
        from hotxlfp.formulas import error as xlerror

        def fr(*a):
            raise xlerror.DIV_ZERO
        p.set_function('FR', fr)                                  # a call that fails with an error value ...
        p.set_function('FE', lambda *a: xlerror.NOT_AVAILABLE)    # ... and one that returns one

        def unpacks(c):
            # the payload also unpacks as `row, col = cell`: the two routes to the coordinates must agree
            try:
                r, k = c
                ok = r is c.row and k is c.col
            except Exception:
                ok = False
            self.rec.count('payload_unpackings')
            if not ok:
                self.rec.violation('C10/events:payload-unpacks-to-other-coordinates', label=getattr(c, 'label', None), formula_so_far=len(self.log))

        def on_cell(c, s):
            unpacks(c)
            self.log.append(('cell', c.label, c.row.index, bool(c.row.is_absolute), c.col.index, bool(c.col.is_absolute)))
            s(cell_value(c.row.index, c.col.index))

        def on_range(a, b, s):
            unpacks(a)
            unpacks(b)
            self.log.append(('range', a.label, a.row.index, bool(a.row.is_absolute), a.col.index, bool(a.col.is_absolute),
                             b.label, b.row.index, bool(b.row.is_absolute), b.col.index, bool(b.col.is_absolute)))
            s(RANGE_VALUE)
        p.on('callCellValue', on_cell)
        p.on('callRangeValue', on_range)
        p.on('callVariable', lambda n, s: self.log.append(('var', n)))
        p.on('callFunction', lambda n, a, s: self.log.append(('fn', n, len(a), canon(list(a)))))

    def arg_value(self, a, returned):
        """model value of an argument (atoms and nested calls)"""
        k = a[0]
        if k == 'cell':
            return cell_value(a[2][0], a[2][2])
        if k == 'range':
            return RANGE_VALUE
        if k == 'var':
            return VARS[a[1]]
        if k in ('n', 's'):
            return a[1]
        return returned.get(id(a), NotImplemented)

    def judge_formula(self, t, rec):
        f = render(t)
        del self.log[:]
        del self.tokens[:]
        r = self.parse(f)
        failing = ('FR(' in f or 'FE(' in f) and r['error'] in ('#DIV/0!', '#N/A')
        if r['error'] is not None and not failing:
            # the evaluation was cut short somewhere: what was raised until then is still the beginning of the evaluation order -
            # no event for something the formula does not mention, none twice, none out of turn
            rec.count('formula_errors')
            rec.case()
            exp = expected_events(t, [])
            got = [e[:3] if e[0] == 'fn' else e for e in self.log]
            self.expect('C10/events:not-a-beginning-of-the-evaluation-order:failed-formula', got == exp[:len(got)], formula=f, record=r, got=got[:6], expected=exp[:6])
            return
        if failing:
            # an error value is a value: the evaluation went on to its end, so every reference was met - the failing calls included
            rec.count('formulas_with_failing_calls_compared')
        exp = expected_events(t, [])
        got = [e[:3] if e[0] == 'fn' else e for e in self.log]
        kinds_ok = [x[0] for x in got] == [x[0] for x in exp]
        if got != exp:
            if not kinds_ok or len(got) != len(exp):
                key = 'C10/events:wrong-order-or-multiplicity'
            else:
                a, b = next((a, b) for a, b in zip(got, exp) if a != b)
                key = 'C10/events:%s-payload' % a[0]
                if a[0] == 'range':
                    coords_a, coords_b = (a[2:6], a[7:]), (b[2:6], b[7:])
                    key += ':labels-disagree-with-coordinates' if coords_a == coords_b else ':coordinates'
                    rt = next(x for x in self._ranges(t) if True)
                elif a[0] == 'cell':
                    key += ':label' if a[2:] == b[2:] else ':coordinates'
            self.expect(key, False, formula=f, got=[a for a, b in zip(got, exp) if a != b][:2] or got[:6], expected=[b for a, b in zip(got, exp) if a != b][:2] or exp[:6])
        else:
            self.expect('C10/events', True)
        # argument values delivered with callFunction, in post-order
        if got == exp:
            self.check_args(t, f)
        rec.nt(f)
        for x in self._ranges(t):
            rec.cov('corner_orders', corner_order(x))
        for e in exp:
            rec.cov('event_kinds', e[0])
            if e[0] == 'cell':
                rec.cov('dollar_patterns', (e[3], e[5]))
                rec.cov('label_letters', len(M.col_label(e[4])))
        rec.count('events_compared', len(exp))
        rec.sample({'formula': f, 'events': len(exp)}, k=6)

    def _ranges(self, t):
        k = t[0]
        if k == 'range':
            yield t
        elif k == 'call':
            for a in t[2]:
                for x in self._ranges(a):
                    yield x
        elif k == 'paren':
            for x in self._ranges(t[1]):
                yield x
        elif k == 'b':
            for x in self._ranges(t[2]):
                yield x
            for x in self._ranges(t[3]):
                yield x

    def check_args(self, t, f):
        """walk calls in post-order; custom functions return fresh tokens so nested call values are known"""
        fn_events = [e for e in self.log if e[0] == 'fn']
        custom = list(self.tokens)
        returned = {}
        idx = {'fn': 0, 'custom': 0}

        def walk(n):
            k = n[0]
            if k == 'call':
                for a in n[2]:
                    walk(a)
                ev = fn_events[idx['fn']]
                idx['fn'] += 1
                vals = [self.arg_value(a, returned) for a in n[2]]
                if n[1] in ('FA', 'FB', 'F.c'):
                    name, args, tok = custom[idx['custom']]
                    idx['custom'] += 1
                    returned[id(n)] = tok
                    if NotImplemented not in vals:
                        self.expect('C10/custom-function-received-wrong-arguments', name == n[1] and args == canon(vals), formula=f, function=n[1], received=args, expected=canon(vals))
                if NotImplemented not in vals:
                    self.expect('C10/events:fn-payload:arguments', ev[3] == canon(vals), formula=f, function=n[1], delivered=ev[3], expected=canon(vals))
            elif k == 'paren':
                walk(n[1])
            elif k == 'b':
                walk(n[2])
                walk(n[3])
        walk(t)

    def c_order(self, spec, rec):
        rnd = self.rng(spec)
        self.fresh()
        g = Gen(rnd)
        gf = Gen(rnd, failing_calls=True)
        # every kind of reference on its own, in the plainest contexts: these cannot fail, so no event may be missing
        singles = [('var', n) for n in VARS] + [g.atom() for _ in range(60)]
        for a in singles:
            if a[0] in ('n', 's'):
                continue
            for t in (a, ('paren', a), ('call', 'FA', [a]), ('call', 'FB', [('n', 1), a]), ('call', 'FA', [a, a])):
                f = render(t)
                del self.log[:]
                del self.tokens[:]
                r = self.parse(f)
                exp = expected_events(t, [])
                got = [e[:3] if e[0] == 'fn' else e for e in self.log]
                self.expect('C10/events:a-lone-reference-does-not-raise-its-event', r['error'] is None and got == exp, formula=f, record=r, got=got[:4], expected=exp[:4])
                rec.nt(('single', f))
        for k in range(spec['n']):
            t = (gf if k % 4 == 3 else g).expr(rnd.randint(0, 4))
            self.judge_formula(t, rec)

    # ------------------------------------------------------------------ setter protocol
    def c_setters(self, spec, rec):
        rnd = self.rng(spec)
        import decimal, fractions
        from .c09 import Falsy
        # every kind of falsy value is still a value: only None means "nothing set"
        pool = [0, False, '', [], None, None, 1, 'v', 2.5, [1, 2], True, [[1], [2]], 0.0, (1,), {'a': 1}, -1,
                (), {}, set(), b'', 0j, -0.0, decimal.Decimal('0'), fractions.Fraction(0), Falsy(), range(0), frozenset(),
                # values that are callable are values: handed on as they are, never called
                len, dict, (lambda: 'called'), fractions.Fraction, [].append, type('Tick', (object,), {'__call__': lambda self: 'called'})()]
        for _ in range(spec['n']):
            e = hx.Env()
            self.e = e
            p = e.p
            kind = rnd.choice(['cell', 'range', 'var', 'fn'])
            base = {'cell': None, 'range': None, 'var': 'registered', 'fn': 'returned'}[kind]
            p.set_variable('foo', 'registered')
            p.set_function('FA', lambda *a: 'returned')
            evname = {'cell': 'callCellValue', 'range': 'callRangeValue', 'var': 'callVariable', 'fn': 'callFunction'}[kind]
            nl = rnd.randint(0, 4)
            script = [[rnd.choice(pool) for _ in range(rnd.randint(0, 3))] for _ in range(nl)]
            calls = []
            depth = [0]
            reenter = rnd.random() < 0.3          # a listener that evaluates another formula on the same parser while its event is delivered
            # (also nested formulas that are cut short with part of their text unread: an unknown function, a syntax error half-way)
            nested_f = rnd.choice(['Q7+1', 'foo&"x"', 'FA(2)', 'Q7:R9', '1+', 'SUM(Q7,foo)', 'SUM(Q7,NOSUCH(1))+R8', 'Q7+NOSUCH(1)+R8', 'Q7 R8+S9', '1 2+Q7', ')+Q7*2', 'nosuchname+Q7&foo',
                                   '"open+Q7', 'Q7+#REF!+R8'])
            # what a listener *returns* is nobody's business: one-line lambdas return their setter call's result, others return anything
            returns = [rnd.choice(['none', 'none', 'first-setter-result', 'all-setter-results', 'junk']) for _ in script]
            junk = [rnd.choice(['ignored', 99, (1, 2), 0, False, [5]]) for _ in script]
            for li, vals in enumerate(script):
                def listener(*a, _vals=vals, _li=li, _ret=returns[li], _junk=junk[li]):
                    if depth[0]:
                        return            # events of the nested evaluation: observe only
                    calls.append(_li)
                    got = []
                    for k, v in enumerate(_vals):
                        got.append(a[-1](v))
                        if reenter and k == 0:
                            depth[0] += 1
                            try:
                                p.parse(nested_f)
                            finally:
                                depth[0] -= 1
                    if reenter and not _vals:
                        depth[0] += 1
                        try:
                            p.parse(nested_f)
                        finally:
                            depth[0] -= 1
                    if _ret == 'first-setter-result':
                        return got[0] if got else 'nothing-set'
                    if _ret == 'all-setter-results':
                        return tuple(got)
                    if _ret == 'junk':
                        return _junk
                    return None
                p.on(evname, listener)
            if rnd.random() < 0.25:
                # a listener that was subscribed and unsubscribed again before the evaluation - as a bound method (a new, equal object at every
                # access), a callable object, a function, through on() or once(): it is gone, whatever was subscribed around it stays
                class Provider(object):
                    def answer(self, *a):
                        calls.append('removed-listener-called')
                        if evname != 'callFunction':
                            a[-1]('from-removed-listener')

                    def __call__(self, *a):
                        self.answer(*a)
                prov = Provider()
                how_removed = rnd.choice(['bound-method', 'callable-object', 'once-bound-method', 'off-name-then-readd'])
                if how_removed == 'bound-method':
                    p.on(evname, prov.answer)
                    p.off(evname, prov.answer)
                elif how_removed == 'callable-object':
                    p.on(evname, prov)
                    p.off(evname, prov)
                elif how_removed == 'once-bound-method':
                    p.once(evname, prov.answer)
                    p.off(evname, prov.answer)
                elif not script:
                    p.on(evname, prov.answer)
                    p.off(evname)
                rec.cov('removed_listener', how_removed)
            if reenter:
                # the nested formula's own references also raise events on this parser: give them values through separate listeners
                for ev2 in ('callCellValue', 'callRangeValue', 'callVariable', 'callFunction'):
                    p.on(ev2, lambda *a: a[-1]('nested-value') if depth[0] else None)
                rec.cov('reentrant_listener', kind)
            f = {'cell': rand_cell(rnd)[0], 'range': rand_cell(rnd)[0] + ':' + rand_cell(rnd)[0], 'var': 'foo', 'fn': 'FA(1)'}[kind]
            if kind in ('cell', 'range') and rnd.random() < 0.4:
                # a variable that happens to be spelled like the reference (a name such as Q1, FY2024): the reference is still the cell
                for lab in f.split(':'):
                    for spelling in {lab, lab.upper(), lab.replace('$', ''), lab.replace('$', '').upper()}:
                        p.set_variable(spelling, 'decoy-variable')
                rec.count('variables_spelled_like_the_reference')
            # the reference in the plainest surroundings that leave its value alone: nothing, parentheses, an identity function
            p.set_function('IDF', lambda x, *rest: x)
            f = rnd.choice(['%s', '%s', '(%s)', '((%s))'] + ([] if kind == 'fn' else ['IDF(%s)', 'IDF(%s,1)', 'IDF((%s))'])) % f      # (IDF is a call itself)
            r = self.parse(f)
            flat = [v for vals in script for v in vals if v is not None]
            exp = flat[-1] if flat else base
            ok = r['error'] is None and (r['result'] is exp or canon(r['result']) == canon(exp))
            falsy = bool(flat) and not flat[-1] and flat[-1] is not None
            returning = any(x != 'none' for x in returns)
            tag = ''
            if not ok:
                tag = (':reentrant-listener' if (reenter and nl) else ':falsy-value-ignored' if falsy else ':listener-return-value-used' if returning
                       else ':no-listener-not-blank' if not nl else '')
            self.expect('C10/setter:%s%s' % (kind, tag), ok, listener_returns=returns,
                        formula=f, script=script, record=r, expected=exp)
            self.expect('C10/events:%s-listeners-not-each-called-once' % kind, calls == list(range(nl)), formula=f, calls=calls, listeners=nl)
            if 'removed-listener-called' in calls:
                rec.violation('C10/events:unsubscribed-listener-still-called', formula=f, kind=kind, calls=calls)
            rec.nt((f, repr(script)))
            rec.cov('setter_patterns', (kind, nl, min(len(flat), 3)))
            rec.sample({'formula': f, 'listener_scripts': repr(script), 'expected': repr(exp)}, k=6)

    def c_sentinels(self, spec, rec):
        self.fresh()
        cases = [('range', 'b2', (1, False, 1, False), 'A1', (0, False, 0, False)), ('range', 'A2', (1, False, 0, False), 'b1', (0, False, 1, False)),
                 ('range', '$C$5', (4, True, 2, True), 'a1', (0, False, 0, False)), ('range', 'A$9', (8, True, 0, False), '$b1', (0, False, 1, True)),
                 ('range', 'A1', (0, False, 0, False), 'B2', (1, False, 1, False)), ('range', 'xfd1048576', (1048575, False, 16383, False), 'A1', (0, False, 0, False))]
        for c in cases:
            self.judge_formula(c, rec)
            self.judge_formula(('call', 'COUNT', [c]), rec)
        for t in (('cell', 'a1', (0, False, 0, False)), ('cell', '$zz$10', (9, True, 701, True)),
                  ('b', '&', ('cell', 'B2', (1, False, 1, False)), ('call', 'FA', [('cell', 'a1', (0, False, 0, False)), ('var', 'foo'), ('call', 'FB', [])])),
                  ('call', 'IF', [('var', 'TRUE'), ('cell', 'A1', (0, False, 0, False)), ('cell', 'B1', (0, False, 1, False))]), ('call', 'PI', []),
                  ('call', 'FA', [('range', 'B2', (1, False, 1, False), 'a1', (0, False, 0, False)), ('n', 3)])):
            self.judge_formula(t, rec)

    def judge(self, merged, tier):
        why = []
        if len(merged['cover'].get('corner_orders', ())) < 4:
            why.append('not all four corner orders of a range were exercised')
        if len(merged['cover'].get('event_kinds', ())) < 4:
            why.append('not all four event kinds were observed')
        if merged['counts'].get('events_compared', 0) < 1000:
            why.append('fewer than 1000 events compared')
        return why
