"""C02 - evaluation is a pure, repeatable function of formula and registered bindings.

(a) history independence: a probe formula evaluated on a parser aged by a random history (valid, erroneous, aborted
    evaluations; re-bindings in between) must give the outcome it gives on a fresh parser with the *current* bindings, for
    both debug settings;
(b) no mutation of host values: deep type-strict snapshots of every variable value, every value handed to a setter,
    every list returned by a custom function and every args list delivered to callFunction listeners are compared after
    each evaluation; the registry-argument contract (contracts.py) watches every built-in under every workload;
(c) no retention: after warm-up, gc.collect()+sys.getallocatedblocks() over repeated passes of a corpus (half of it
    failing in every known way) must not grow in every pass; a per-type census names what grew.
"""
import collections
import gc
import io
import os
import sys

from ..runner import BaseCheck
from ..oracle import canon, outcome, stable_text
from ..gen import exprs as G
from .. import env, hx, probe
from . import c08 as C08, c10 as C10, c01 as C01

NONDET = ('NOW', 'TODAY', 'RAND', 'RANDBETWEEN')


class Bindings(object):
    """declarative description of what is registered on a parser, so that a fresh equal parser can be built"""

    def __init__(self):
        self.variables = {'xa': 4, 'yb': -6, 'zed': 0.5, 'width': 12, 'rate_pct': 2.5, 'n_items': 9, 'neg_half': -0.5, 'foo': 5, 'lst': [1, 2, [3, 4]], 'txt': 'a,b',
                          'tup': (1, 2, 3), 'tup_one': (7,), 'tup_rows': ((1, 2), (3, 4)), 'empty_tup': ()}
        self.functions = {'CF': ('len',), 'BOOM': ('raise', 'ValueError'), 'SYN': ('raise', 'SyntaxError'), 'ERRR': ('raise-xl',), 'INNER': ('nested', '10*2'), 'TWICE': ('twice',)}
        self.listeners = [('callCellValue', 'cells'), ('callRangeValue', 'range')]
        self.state = {'cell_offset': 0, 'range_value': [[1, 2], [3, 4]]}       # host data the listeners read; histories change it

    def copy(self):
        b = Bindings()
        b.variables = dict(self.variables)
        b.functions = dict(self.functions)
        b.listeners = list(self.listeners)
        b.state = dict(self.state)
        return b


INNER_PARSER = []


def make_function(spec):
    kind = spec[0]
    if kind == 'len':
        return lambda *a: len(a)
    if kind == 'const':
        return lambda *a: spec[1]
    if kind == 'twice':
        return lambda x=0, *a: x * 2 if isinstance(x, (int, float)) else 0
    if kind == 'raise':
        exc = getattr(__import__('builtins'), spec[1])

        def f(*a):
            raise exc('boom')
        return f
    if kind == 'raise-xl':
        def f(*a):
            raise hx.error_objects()['#N/A']
        return f
    if kind == 'nested':
        def f(*a):
            if not INNER_PARSER:
                INNER_PARSER.append(env.load().Parser())
            r = INNER_PARSER[0].parse(spec[1])['result']
            return (r or 0) + (a[0] if a and isinstance(a[0], (int, float)) else 0)
        return f
    raise ValueError(kind)


def make_listener(kind, state=None):
    state = state if state is not None else {'cell_offset': 0, 'range_value': [[1, 2], [3, 4]]}
    if kind == 'cells':
        def l(cell, setter):
            lab = cell.label.replace('$', '')
            if lab in G.CELLS:
                setter(G.CELLS[lab] + state['cell_offset'])
            else:
                setter((cell.row.index % 97) * 10 + cell.col.index % 7 + 1 + state['cell_offset'])
        return l
    if kind == 'range':
        return lambda a, b, s: s(state['range_value'])
    if kind == 'range-tuple':
        return lambda a, b, s: s(tuple(tuple(r) if isinstance(r, list) else r for r in state['range_value']))
    if kind == 'cells-raise':
        def l(cell, setter):
            if cell.col.index > 3:
                raise KeyError('no such cell')
        return l
    if kind == 'noop':
        return lambda *a: None
    if kind == 'var-override':
        def l(name, setter):
            if name == 'foo':
                setter(50)
        return l
    raise ValueError(kind)


def build(b, debug):
    p = env.load().Parser(debug=debug)
    for n, v in b.variables.items():
        p.set_variable(n, v)
    for n, s in b.functions.items():
        p.set_function(n, make_function(s))
    for ev, kind in b.listeners:
        p.on(ev, make_listener(kind, b.state))
    return p


GARBAGE = ['1+', '((', '"x', u'§', '#FOO', 'SUM(', '1 2', 'NOSUCH(1)+1', 'SYN(1)', 'BOOM(2)', '1/0', 'SUM(1/0)', 'nosuch', '#N/A', 'A1:B2:C3', '{1,2', '}{', ',', ';;', 'x y', 'TRUE(',
           'IF(,,)', 'ACOS(2)', 'BASE(5,2)', 'CONCATENATE(1/0)', 'INNER(1)', '- -', '<>', '&&', 'ERRR(1)+1', 'IFERROR(ERRR(1),2)', 'SYN(1)+1', 'Z9+BOOM()', 'MAX(NA())', '#REF!+1', '',
           'INDEX(lst,99)', 'lst+{1,2}', '{1,2;3,4)', 'CF(1,2;3,4}', '{1,2;3,4;5 6}', 'BOOM(1,2;3,4)', '{1;2;', 'FACT(2000)&""', 'CONCATENATE(FACT(1800),1)', 'NOW()', 'RAND()', 'TODAY()', 'RANDBETWEEN(1,9)', '1+1', 'foo', 'A1', 'A1:B2', 'CF(A1,B2:C3,foo)']


class Check(BaseCheck):
    ID = 'C02'
    TITLE = 'Evaluation is a pure, repeatable function of formula and registered bindings'
    TECHNIQUE = 'boundary recorder: aged-vs-fresh parser outcomes over random histories; deep snapshots of host values; gc/allocator census over repeated passes; registry-argument contract'
    RULE = ('case = (a) one probe formula evaluated after a seeded history of 5-200 operations (evaluations that succeed, fail, are aborted by raising callbacks or nest another '
            'evaluation; set_variable/set_function/on/off in between) and compared with a fresh parser carrying the current bindings, under both debug settings; '
            '(b) one evaluation of a function/operator over host lists (flat, nested, shared) with snapshots compared afterwards; (c) one pass over a corpus in the retention run. '
            'non-trivial = the probe was accepted by at least one parser and outcomes were compared / snapshots compared / block counts read; distinct = distinct (history, probe) resp. formula.')
    ASSUMPTIONS = ('NOW, TODAY, RAND, RANDBETWEEN may appear in histories but never as probes',
                   'returning a host list unchanged is aliasing, not mutation; growth during the first two passes is warm-up',
                   '"unbounded repetition counts" is restated as: no growth in every one of R passes (R = 8 quick / 30 thorough) over a corpus of K formulas')

    NO_AMBIENT = ('order', 'ambient_reads', 'ambient_states')      # its shards are compared with each other: they differ in evaluation order and hash seed only

    def plan(self, tier, seed):
        q = tier == 'quick'
        specs = [{'campaign': 'sentinels'}]
        for i in range(16):
            specs.append({'campaign': 'histories', 'seed': seed, 'n': 80 if q else 2500, 'i': i, 'maxlen': 60 if i % 2 else 200})
            specs.append({'campaign': 'mutation', 'seed': seed, 'i': i, 'k': 16})
        for k in range(4 if q else 8):
            # ... and under different string-hash seeds: what a set or dict of names happens to yield first is not part of the formula
            specs.append({'campaign': 'order', 'seed': seed, 'perm': k, 'per_function': 14 if q else 60, 'hashseed': [0, 1, 4242, 31337, 7, 99, 123456789, 2][k % 8]})
        for amb in ({}, {'tz': 'EST5EDT,M3.2.0,M11.1.0'}, {'tz': 'NZST-12NZDT,M9.5.0,M4.1.0/3'}, {'tz': 'CET-1CEST,M3.5.0,M10.5.0/3'}, {'warnings': 'error'}, {'years_ahead': 7}, {'years_ahead': 30}):
            specs.append(dict({'campaign': 'ambient_states'}, **amb))
        for i in range(4):
            specs.append({'campaign': 'ambient_reads', 'seed': seed, 'per_function': 14 if q else 60, 'i': i, 'k': 4})
        for i in range(4):
            specs.append({'campaign': 'retention_each', 'i': i, 'k': 4, 'N': 150 if q else 600})
        for i in range(8):
            specs.append({'campaign': 'fault_repetition', 'i': i, 'N': 260 if q else 1500, 'seed': seed})
        specs.append({'campaign': 'retention', 'K': 120 if q else 400, 'R': 8 if q else 30, 'seed': seed, 'mix': 'failing'})
        specs.append({'campaign': 'retention', 'K': 120 if q else 400, 'R': 8 if q else 30, 'seed': seed, 'mix': 'succeeding'})
        specs.append({'campaign': 'retention', 'K': 600 if q else 3000, 'R': 8 if q else 30, 'seed': seed, 'mix': 'fresh'})
        return specs

    @staticmethod
    def process_settings():
        """interpreter- and process-wide settings an evaluation has no business changing (they outlive it and reach every other parser)"""
        import decimal, locale, os, signal, threading, warnings
        out = {'int_max_str_digits': sys.get_int_max_str_digits() if hasattr(sys, 'get_int_max_str_digits') else None, 'recursionlimit': sys.getrecursionlimit(),
               'switchinterval': sys.getswitchinterval(), 'decimal.prec': decimal.getcontext().prec, 'decimal.rounding': decimal.getcontext().rounding,
               'locale': locale.setlocale(locale.LC_ALL), 'environ': hash(tuple(sorted(os.environ.items()))), 'sys.path': tuple(sys.path), 'cwd': os.getcwd(),
               'excepthook': id(sys.excepthook), 'threading.excepthook': id(threading.excepthook), 'gc.enabled': gc.isenabled(), 'gc.threshold': gc.get_threshold(),
               'warnings.filters': len(warnings.filters), 'stdout': id(sys.stdout), 'tz': __import__('time').tzname, 'umask': None,
               'sigint': id(signal.getsignal(signal.SIGINT)), 'sigalrm': id(signal.getsignal(signal.SIGALRM)), 'default_timeout': __import__('socket').getdefaulttimeout(),
               'stack_size': threading.stack_size(), 'displayhook': id(sys.displayhook), 'float_repr_style': sys.float_repr_style,
               'decimal.flags': tuple(sorted(k.__name__ for k, v in decimal.getcontext().flags.items() if v)), 'decimal.traps': tuple(sorted(k.__name__ for k, v in decimal.getcontext().traps.items() if v))}
        return out

    def run(self, spec, rec):
        env.load()
        self.rec = rec
        old = sys.stderr
        sys.stderr = io.StringIO()
        before = self.process_settings()
        try:
            getattr(self, 'c_' + spec['campaign'])(spec, rec)
        finally:
            sys.stderr = old
        after = self.process_settings()
        rec.case()
        rec.count('process_settings_compared', len(before))
        for k in before:
            if before[k] != after[k]:
                rec.violation('C02/evaluation-changed-a-process-wide-setting:' + k, setting=k, before=before[k], after=after[k], campaign=spec['campaign'])

    # ------------------------------------------------------------------ probes
    def probes(self, rnd, n):
        out = []
        g8 = C08.Gen(rnd)
        g10 = C10.Gen(rnd)
        fixed = ['1+2*3', 'SUM(1,2,{3,4})', '"a"&"b"', 'IF(xa>2,"big","small")', 'A1+B2', 'MAX(A1:B2)', '1/0', 'nosuch', 'NOSUCH(1)', '1+', 'ROMAN(1999)', 'DATE(2020,1,1)+5',
                 'COUNTIF({"ab","cd"},"ab")', '{1;2;3}', 'CF(1;2)', 'SUM(1;2;3)', 'CF({1;2};{3;4})', '-xa', 'BOOM(1)', 'SYN(1)+1', 'INNER(2)*3', 'LEN(FACT(2000))', 'UPPER(FACT(1700))', 'INNER(2)+foo+A1', 'INNER(1)&txt&Z9', 'INNER(2)+CF(1)+SUM(A1:B2)', '{1,2;3,4}', '#REF!', '"abc', '2^3+50%', 'foo', 'foo*2', 'CF(lst)', 'SUM(lst)', 'TWICE(foo)',
                 'ERRR(1)', 'IFERROR(ERRR(1),7)', 'SUM(tup)', 'tup', 'CF(tup)', 'SUM(tup_rows)', 'MAX(tup_one)', 'COUNT(empty_tup)', 'INDEX(tup,2)', 'xa+SUM(tup)', 'TEXTJOIN(",",TRUE,txt,"c")', 'INDEX(lst,2)', 'LARGE({3,1,2},1)', 'MATCH(2,{1,2,3},0)', 'EDATE(DATE(2020,1,31),1)', 'Z9',
                 # probes that fail through every kind of python exception inside the evaluation
                 'COT(0)', 'LOG(8,1)', 'ACOTH(1)', 'POWER(0,-1)', 'SQRT(-1)', 'CHOOSE(1.5,1,2)', '-"a"', 'LEFT("abc","x")', 'FACT("z")', 'DATE(2020,13,45)', 'CHAR(-1)', 'CODE("")',
                 'EXP(100000)', 'MID(1,2,3)', 'AVERAGE()', 'MODE(1,2)', 'INDEX(5,1,1,1,1,1)', 'SYN(1)', 'BOOM(1)+1', 'ERRR(1)&"x"', u'§', '1 2', '{1,2', 'A1:']
        for _ in range(n):
            k = rnd.random()
            if k < 0.4:
                out.append(rnd.choice(fixed))
            elif k < 0.65:
                out.append(G.text(G.render(G.ExprGen(rnd, maxdepth=rnd.randint(1, 4)).tree(), 'min')))
            elif k < 0.8:
                out.append(C08.render(g8.tree(rnd.randint(1, 3))).replace('ERRV(', 'CF(').replace('ev_', 'zz_').replace('IDF(', 'TWICE('))
            else:
                out.append(C10.render(g10.expr(rnd.randint(0, 2))).replace('FA(', 'CF(').replace('FB(', 'CF(').replace('F.c(', 'CF(').replace('NOW()', '1'))
        return [f for f in out if not any(n in f for n in NONDET)]

    # ------------------------------------------------------------------ (a) histories
    def c_histories(self, spec, rec):
        rnd = self.rng(spec)
        corpus = C01.Check().valid_corpus(rnd, 120)
        for _ in range(spec['n']):
            b = Bindings()
            debug = rnd.random() < 0.5
            aged = build(b, debug)
            nops = rnd.randint(5, spec['maxlen'])
            hist = []
            for step in range(nops):
                k = rnd.random()
                if k < 0.62:
                    f = rnd.choice(GARBAGE) if rnd.random() < 0.5 else (C01.mutate(rnd, rnd.choice(corpus), rnd.choice(corpus)) if rnd.random() < 0.5 else rnd.choice(corpus))
                    r = aged.parse(f)
                    hist.append(('parse', f))
                    rec.count('history_ops.parse')
                    if (r['error'] is not None and rnd.random() < 0.3) or rnd.random() < 0.05:
                        # straight after a (failed) evaluation the host's data changes and a reference is read again
                        b.state['cell_offset'] = rnd.choice([0, 1, 100, -5, 0.5, 7])
                        b.state['range_value'] = rnd.choice([[[1, 2], [3, 4]], [[9, 8], [7, 6]], [[0, 0], [0, 1]]])
                        hist.append(('host-data-change', dict(b.state)))
                        refs = [t for t in C01.tokenize(f) if t[:1].isalpha() and t[-1:].isdigit() and len(t) < 12][:2]
                        for pf in ['A1*2', 'A1+B2', 'SUM(A1:B2)', 'Z9'][:2] + ['%s+0' % t for t in refs]:
                            self.compare(rec, aged, b, pf, debug, hist)
                        rec.count('fault_adjacent_probes')
                elif k < 0.75:
                    name = rnd.choice(['xa', 'foo', 'newvar', 'lst', 'zed', 'txt'])
                    v = rnd.choice([1, 2.5, 'z', [9, 8], None, True, 100, (4, 5), (1,), ((1, 2), (3, 4)), {'k': 1}, 3 + 4j, b'by', frozenset([1])])
                    b.variables[name] = v
                    aged.set_variable(name, v)
                    hist.append(('set_variable', name, v))
                    rec.count('history_ops.set_variable')
                elif k < 0.83:
                    name = rnd.choice(['CF', 'TWICE', 'NEWF', 'SUM', 'BOOM'])
                    s = rnd.choice([('len',), ('const', 7), ('twice',), ('raise', 'KeyError'), ('const', [1, 2])])
                    b.functions[name] = s
                    aged.set_function(name, make_function(s))
                    hist.append(('set_function', name, s))
                    rec.count('history_ops.set_function')
                elif k < 0.89:
                    # the host's own data changes between evaluations (what the cell/range listeners deliver)
                    if rnd.random() < 0.7:
                        b.state['cell_offset'] = rnd.choice([0, 1, 100, -5, 0.5])
                    else:
                        b.state['range_value'] = rnd.choice([[[1, 2], [3, 4]], [[9, 8], [7, 6]], [5, 5, 5], [[0, 0], [0, 1]]])
                    hist.append(('host-data-change', dict(b.state)))
                    rec.count('history_ops.host_data_change')
                elif k < 0.94:
                    ev, kind = rnd.choice([('callCellValue', 'cells-raise'), ('callVariable', 'var-override'), ('callRangeValue', 'range-tuple'), ('callFunction', 'noop'), ('callCellValue', 'noop'), ('callRangeValue', 'noop')])
                    b.listeners.append((ev, kind))
                    aged.on(ev, make_listener(kind, b.state))
                    hist.append(('on', ev, kind))
                    rec.count('history_ops.on')
                else:
                    ev = rnd.choice(['callCellValue', 'callVariable', 'callFunction', 'callRangeValue'])
                    b.listeners = [l for l in b.listeners if l[0] != ev]
                    aged.off(ev)
                    hist.append(('off', ev))
                    rec.count('history_ops.off')
                if rnd.random() < 0.12 or step == nops - 1:
                    for f in self.probes(rnd, 3):
                        self.compare(rec, aged, b, f, debug, hist)

    def compare(self, rec, aged, b, f, debug, hist):
        oa = outcome(aged.parse(f))
        of1 = outcome(build(b, debug).parse(f))
        of2 = outcome(build(b, not debug).parse(f))
        rec.case()
        if oa != of1:
            last = [h for h in hist if h[0] == 'parse'][-3:]
            rec.violation('C02/outcome-depends-on-history', probe=f, aged=oa, fresh=of1, history_length=len(hist), last_evaluations=last, history_tail=hist[-6:])
        if of1 != of2:
            rec.violation('C02/outcome-depends-on-debug-setting', probe=f, debug_on=of1 if debug else of2, debug_off=of2 if debug else of1)
        ob = outcome(aged.parse(f))
        if ob != oa:
            rec.violation('C02/outcome-not-repeatable', probe=f, first=oa, second=ob)
        if oa[0] == 'ok' or of1[0] == 'ok' or oa != ('err', '#ERROR!'):
            rec.nt((f, len(hist), repr(hist[-3:])))
        rec.cov('probe_outcome_kinds', oa[1] if oa[0] == 'err' else 'value')
        rec.sample({'probe': f, 'history_length': len(hist), 'outcome': repr(oa)[:80]}, k=8)

    # ------------------------------------------------------------------ (b) mutation
    def c_mutation(self, spec, rec):
        rnd = self.rng(spec)
        from hotxlfp import formulas
        names = formulas.supported()[spec['i']::spec['k']]
        p = env.load().Parser()
        delivered = []       # args lists delivered to callFunction listeners, with their snapshot
        p.on('callFunction', lambda n, a, s: delivered.append((n, a, canon(a))))
        range_vals = {}
        cell_vals = {}

        # the containers a host hands over come in every nesting of lists and tuples (rows from a database cursor are tuples);
        # whichever it is, the object and every row in it are the same objects, of the same types, afterwards
        shape = [0]
        SHAPES = [lambda: [[5, 6, 7], [8, 9, 10]], lambda: [(5, 6, 7), (8, 9, 10)], lambda: ([5, 6, 7], [8, 9, 10]), lambda: [[5, 6, 7], (8, 9, 10)],
                  lambda: ((5, 6, 7), (8, 9, 10)), lambda: [(5,), (8,)], lambda: [(5, 6, 7)], lambda: [[5, (6,), 7], [8, 9, 10]]]

        def rows_of(v):
            return [id(r) for r in v] if isinstance(v, (list, tuple)) else []

        def on_range(a, b, s):
            v = SHAPES[shape[0] % len(SHAPES)]()
            range_vals[id(v)] = (v, (canon(v), rows_of(v)))
            s(v)

        def on_cell(c, s):
            v = ([4, [5, 6]], [4, (5, 6)], (4, [5, 6]))[shape[0] % 3] if c.col.index % 2 else 3
            cell_vals[id(v)] = (v, (canon(v), rows_of(v)))
            s(v)
        p.on('callRangeValue', on_range)
        p.on('callCellValue', on_cell)
        returned = []

        def giver(*a):
            v = ([3, 1, 2, [9, 8]], [3, 1, 2, (9, 8)], (3, 1, 2, [9, 8]))[shape[0] % 3]
            returned.append((v, canon(v)))
            return v
        p.set_function('GIVE', giver)
        shared = [3, 1, 2]
        lists = {'v_a': [3, 1, 2, 2.5, -1], 'v_b': [[3, 1], [2, 4]], 'v_c': shared, 'v_d': shared, 'v_e': ['b', 'a', 'c'], 'v_f': [1, [2, [3, [4]]]], 'v_g': [], 'v_h': [None, 0, '', False],
                 'v_i': [0.5], 'v_j': [2, 1, 3, 1, 2], 'v_k': ['x', 1, None, True, 2.5], 'v_s': 'text', 'v_n': 2, 'v_t': True,
                 'v_m': ['b', None, 'a', None], 'v_o': [3, None, 1], 'v_p': [[2, None], [None, 1]], 'v_q': ['2', '1', 'x'], 'v_r': [True, False, None],
                 'v_u': [(3, 1), (2, 4)], 'v_v': ([3, 1], [2, 4]), 'v_w': (3, 1, 2), 'v_x1': [[7]]}
        for n, v in lists.items():
            p.set_variable(n, v)
        snap = {n: (canon(v), rows_of(v)) for n, v in lists.items()}
        argsets = [('v_a',), ('v_b',), ('v_c', 'v_d'), ('v_e',), ('v_f',), ('v_a', 'v_n'), ('v_n', 'v_a'), ('v_a', 'v_a'), ('v_j', 'v_n'), ('v_k',), ('v_h',), ('A1:B2',), ('B2',),
                   ('GIVE()',), ('v_a', 'v_s'), ('v_s', 'v_e', 'v_s'), ('v_a', '">1"'), ('v_j', 'v_j', '">1"'), ('v_n', 'v_a', 'v_n'), ('v_b', 'v_n', 'v_n'), ('v_t', 'v_a', 'v_e'), ('v_g',),
                   ('v_a', 'v_j', '">=2"', 'v_j', '"<3"'), ('v_s', 'v_t', 'v_k', 'v_e'), ('v_i', 'v_a'), ('{1,2}', 'v_a'), ('v_a', 'GIVE()', 'A1:B2'),
                   # lists holding blanks / text / logicals, and both settings of flag arguments
                   ('v_m',), ('v_o',), ('v_p',), ('v_q',), ('v_r',), ('v_s', 'FALSE', 'v_m'), ('v_s', 'TRUE', 'v_m'), ('v_s', 'FALSE', 'v_h'), ('v_s', 'FALSE', 'v_o', 'v_m'),
                   ('v_m', 'v_n'), ('v_n', 'v_m'), ('v_o', 'v_n'), ('v_o', 'v_o'), ('v_m', 'v_s', 'v_s'), ('v_q', '"1"'), ('v_r', 'v_r'), ('v_o', '">0"'), ('v_p', 'v_n', 'v_n'),
                   ('v_s', 'v_n', 'v_m'), ('FALSE', 'v_m'), ('TRUE', 'v_o'), ('v_m', 'FALSE'), ('v_o', 'TRUE'),
                   ('v_u',), ('v_v',), ('v_w',), ('v_u', 'v_n', 'v_n'), ('v_n', 'v_u'), ('v_v', 'v_n'), ('v_n', 'v_w', 'v_n'), ('A1:B2', 'v_n', 'v_n'), ('v_n', 'A1:B2'), ('v_n', 'A1:B2', 'v_n')]
        forms = []
        for fn in names:
            for args in argsets:
                forms.append('%s(%s)' % (fn, ','.join(args)))
        if spec['i'] == 0:
            for op in ('+', '-', '*', '/', '&', '=', '<', '>=', '<>'):
                for l, r in (('v_a', 'v_n'), ('v_n', 'v_a'), ('v_a', 'v_a'), ('v_b', 'v_b'), ('v_c', 'v_d'), ('v_a', 'v_j'), ('A1:B2', 'v_n'), ('GIVE()', 'v_n'), ('v_k', 'v_n'), ('v_f', 'v_n'),
                             # operands of every length against each other: one element (broadcast), empty, nested, tuples
                             ('v_i', 'v_a'), ('v_a', 'v_i'), ('v_i', 'v_i'), ('v_i', 'v_b'), ('v_b', 'v_i'), ('v_g', 'v_a'), ('v_a', 'v_g'), ('v_w', 'v_a'), ('v_i', 'v_w'), ('v_u', 'v_i'),
                             ('v_i', 'A1:B2'), ('A1:B2', 'v_i'), ('v_i', 'GIVE()'), ('v_i', '{1,2,3}'), ('{5}', 'v_a'), ('v_x1', 'v_a'), ('v_a', 'v_x1'), ('v_x1', 'v_b')):
                    forms.append('%s%s%s' % (l, op, r))
            forms += ['-v_a', '{v_a,v_b}', '(v_a)', 'v_a', 'IF(TRUE,v_a,v_b)', 'INDEX(v_a,0,0)', 'INDEX(v_b,1)', 'CHOOSE(1,v_a)']
        for f in forms:
            del delivered[:]
            del returned[:]
            range_vals.clear()
            cell_vals.clear()
            shape[0] = rnd.randrange(24)
            r = p.parse(f)
            rec.case()
            rec.nt(f)
            bad = [n for n, v in lists.items() if (canon(v), rows_of(v)) != snap[n]]
            if bad:
                rec.violation('C02/host-variable-value-mutated:' + f.split('(')[0][:20], formula=f, variables=bad, now={n: lists[n] for n in bad}, before={n: snap[n] for n in bad})
                for n in bad:     # restore so that one mutation is reported once
                    snap[n] = (canon(lists[n]), rows_of(lists[n]))
            for name, a, before in delivered:
                if canon(a) != before:
                    rec.violation('C02/callFunction-args-mutated-after-delivery:' + name, formula=f, args=a, before=before)
            for v, before in list(range_vals.values()) + list(cell_vals.values()):
                if (canon(v), rows_of(v)) != before:
                    rec.violation('C02/setter-value-mutated:' + f.split('(')[0][:20], formula=f, now=v, before=before)
            for v, before in returned:
                if canon(v) != before:
                    rec.violation('C02/custom-function-result-mutated:' + f.split('(')[0][:20], formula=f, now=v, before=before)
            rec.count('snapshot_comparisons', len(lists) + len(delivered) + len(range_vals) + len(cell_vals) + len(returned))
        rec.sample({'formulas': forms[:4], 'host_lists': sorted(lists)[:6]})

    # ------------------------------------------------------------------ (a') evaluation order across processes
    def order_formulas(self, seed, per_function):
        """the same list in every shard: each supported deterministic function on several argument tuples, plus the fixed probes"""
        import random
        from hotxlfp import formulas
        rnd = random.Random('order:%s' % seed)
        nums = ['0', '1', '2', '3', '4', '14', '499', '900', '1500', '1987', '2000', '3999', '-1', '0.5', '2.5', '12', '255', '16', '10', '36', '100', '-7', '1900', '2020', '31', '61']
        texts = ['"abc"', '"a,b"', '""', '"MCMXC"', '"FF"', '"2020-02-29"', '">2"', '"a*"', '"12"', '{1,2,3}', '{3,1,2;6,5,4}', 'TRUE', 'NULL', 'DATE(2020,1,31)', 'lst', 'txt', 'A1', 'A1:B2']
        out = []
        for fn in formulas.supported():
            if fn in NONDET:
                continue
            for _ in range(per_function):
                ar = rnd.choice([1, 1, 2, 2, 3])
                args = [rnd.choice(nums if rnd.random() < 0.7 else texts) for _ in range(ar)]
                out.append('%s(%s)' % (fn, ','.join(args)))
        for fn in formulas.supported():
            if fn in NONDET:
                continue
            for arr in ('{1,2}', '{TRUE,2}', '{1.0,2}', '{0,2}', '{FALSE,2}', '{0.0,2}', '{"1",2}'):
                out.append('%s(%s)' % (fn, arr))
                out.append('%s(%s,1)' % (fn, arr))
        out += [f for f in self.probes(rnd, 200)]
        # numbers at the interpreter's own limits (an integer of more than 4300 digits cannot be turned into text): whatever happens, it happens
        # in every order alike
        out += ['FACT(2000)&""', 'CONCATENATE(FACT(1800),"x")', 'LEN(FACT(2000))', 'UPPER(FACT(1700))', 'FACT(2000)+1', 'LEN(FACT(1500))', 'LEN(FACT(1558))', 'LEN(FACT(1559))',
                'TEXTJOIN(",",TRUE,FACT(1600)&"")', 'FACT(1999)&FACT(3)', 'LOWER(FACT(1600))', 'ISERROR(LEN(FACT(1990)))', 'SUM(FACT(1800),1)', 'FACT(170)&""', '10^308*10', '2^1023*2']
        # operators over values that are equal-but-differently-typed (1, TRUE, 1.0, "1" ...): an untyped cache shows here
        atoms = ['1', 'TRUE', '1.0', '"1"', '0', 'FALSE', '0.0', '""', 'NULL', '2', '"a"', '-1', 'DATE(2020,1,1)', '43831', '{1,2}', 'lst']
        for a in atoms:
            for b in atoms:
                for op in ('+', '-', '*', '/', '&', '=', '<', '>', '<=', '>=', '<>'):
                    out.append('%s%s%s' % (a, op, b))
        return sorted(set(out))

    def c_order(self, spec, rec):
        import random
        fs = self.order_formulas(spec['seed'], spec['per_function'])
        idx = list(range(len(fs)))
        if spec['perm'] == 1:
            idx.reverse()
        elif spec['perm'] > 1:
            random.Random('perm:%s:%s' % (spec['seed'], spec['perm'])).shuffle(idx)
        p = build(Bindings(), False)
        res = {}
        for i in idx:
            res[i] = stable_text(outcome(p.parse(fs[i])))[:300]
            rec.case()
        rec.series['order.%d' % spec['perm']] = {'outcomes': res, 'formulas': len(fs)}
        rec.series['order.seed'] = spec['seed']
        rec.cov('order_hash_seeds', os.environ.get('PYTHONHASHSEED'))
        rec.series['order.per_function'] = spec['per_function']
        rec.count('order_evaluations', len(fs))
        rec.sample({'formulas_in_list': len(fs), 'permutation': spec['perm'], 'first': [fs[i] for i in idx[:4]]})

    # ------------------------------------------------------------------ (a''') the same formulas under different ambient states of the process
    ZONE_FORMULAS = ['DATEVALUE("2020-01-01 10:00 %s")', 'HOUR("2020-06-01 10:00 %s")', '"2020-01-01 10:00 %s"+1', 'YEAR("1999-12-31 23:00 %s")', 'DAYS("2021-03-01 %s","2021-02-01")',
                     'WEEKDAY("2020-02-29T13:45:10%s")', 'N("2020-02-29 13:45 %s"+0)', '"2020-07-01 %s"<"2020-07-02"', 'MONTH("5 May 2020 12:00 %s")']
    ZONE_NAMES = ['EST', 'EDT', 'NZST', 'NZDT', 'CET', 'CEST', 'UTC', 'GMT', 'Z', '+02:00', '-0500', 'HST', 'IST', 'XYZ', 'BST', '']
    YEAR_FORMULAS = ['YEAR("3/15/80")', 'DATEVALUE("1-2-77")', '(1&-2&-77)+0', 'YEAR("31 Dec 49")', 'YEAR("1 Jan 50")', 'DATEVALUE("12/31/29")', 'YEAR("5/5/05")', '"1/1/68"+0']

    def c_ambient_states(self, spec, rec):
        """one fixed list of date texts with zone designators / abbreviations and two-digit years, evaluated in processes that differ in time
        zone, warnings filter and (a stand-in for) the year the process was started in: every outcome must be the same in all of them"""
        import datetime
        fs = [f % z for f in self.ZONE_FORMULAS for z in self.ZONE_NAMES] + self.YEAR_FORMULAS
        p = build(Bindings(), False)
        res = {}
        if spec.get('years_ahead'):
            # dateutil decides the century of a two-digit year relative to the year in which ITS parser object was made: make the
            # library's parser objects again under a clock that many years ahead (what a process started then would have)
            import importlib
            import dateutil.parser
            from hotxlfp.formulas import utils as futils
            with self.ShiftedClock(datetime.timedelta(days=366 * spec['years_ahead'])):
                try:
                    import time as rtime
                    real_localtime = rtime.localtime
                    shift = 366 * 86400 * spec['years_ahead']
                    rtime.localtime = lambda *a: real_localtime(*(a or (rtime.time() + shift,)))
                    try:
                        fresh = dateutil.parser.parser()
                    finally:
                        rtime.localtime = real_localtime
                    for mod in (futils,):
                        for k, v in list(vars(mod).items()):
                            if v is dateutil.parser.parse:
                                setattr(mod, k, fresh.parse)
                            elif isinstance(getattr(v, '__self__', None), dateutil.parser.parser):
                                # the library keeps a parser object of its own: make one of the same kind again now
                                own = v.__self__
                                setattr(mod, k, getattr(type(own)(type(own.info)()), v.__name__))
                    rec.count('library_date_parser_rebuilt_under_a_later_year')
                except Exception as e:
                    rec.inconcl('could not rebuild the date parser under a shifted year: %r' % e)
                    return
        for i, f in enumerate(fs):
            res[i] = stable_text(outcome(p.parse(f)))[:200]
            rec.case()
        tag = 'tz=%s,warnings=%s,years_ahead=%s' % (spec.get('tz'), spec.get('warnings'), spec.get('years_ahead'))
        rec.series['ambient.' + tag] = {'outcomes': res, 'formulas': len(fs)}
        rec.cov('ambient_states_compared', tag)
        rec.sample({'formula': fs[0], 'ambient': tag})

    def cross(self, merged):
        """the same formulas were evaluated in different orders in different processes: every outcome must agree"""
        amb = {k: v for k, v in merged['series'].items() if k.startswith('ambient.') and isinstance(v, dict)}
        out_amb = []
        if len(amb) >= 2:
            keys = sorted(amb)
            fs = [f % z for f in self.ZONE_FORMULAS for z in self.ZONE_NAMES] + self.YEAR_FORMULAS
            base = amb[keys[0]]
            for k in keys[1:]:
                for i, o in base['outcomes'].items():
                    if amb[k]['outcomes'].get(i) != o and len(out_amb) < 8:
                        f = fs[int(i)]
                        out_amb.append(('C02/outcome-depends-on-the-ambient-state-of-the-process:' + f.split('(')[0][:12],
                                        {'formula': f, 'under_' + keys[0]: o, 'under_' + k: amb[k]['outcomes'].get(i), 'shard': {'campaign': 'ambient_states', 'cross': True}}))
            merged['counts']['ambient_outcomes_compared'] = len(base['outcomes']) * (len(keys) - 1)
        return out_amb + self.cross_order(merged)

    def cross_order(self, merged):
        runs = {k: v for k, v in merged['series'].items() if k.startswith('order.') and isinstance(v, dict)}
        out = []
        if len(runs) < 2:
            return out
        keys = sorted(runs)
        base = runs[keys[0]]
        import random
        fs = None
        nd = 0
        for k in keys[1:]:
            other = runs[k]
            for i, o in base['outcomes'].items():
                if other['outcomes'].get(i) != o:
                    nd += 1
                    if len(out) < 6:
                        if fs is None:
                            env.load()
                            fs = self.order_formulas(int(self._seed_of(merged)), self._per_function_of(merged))
                        f = fs[int(i)] if int(i) < len(fs) else '?'
                        out.append(('C02/outcome-depends-on-what-the-process-evaluated-before:' + f.split('(')[0][:16],
                                    {'formula': f, 'in_order_%s' % keys[0]: o, 'in_order_%s' % k: other['outcomes'].get(i),
                                     'shard': {'campaign': 'order', 'cross': True}}))
        merged['counts']['order_outcomes_compared'] = len(base['outcomes']) * (len(keys) - 1)
        for i in range(min(len(base['outcomes']), 400)):
            merged['nontrivial'].add(hash(('order', i)) & 0xffffffffffff)
        return out

    def _seed_of(self, merged):
        return merged['series'].get('order.seed', 0)

    def _per_function_of(self, merged):
        return merged['series'].get('order.per_function', 14)

    # ------------------------------------------------------------------ (a'') nothing but NOW/TODAY reads the clock, nothing but RAND/RANDBETWEEN the random source
    class ShiftedClock(object):
        """For the duration of the block, the modules of the library under test and of dateutil see a clock that is `shift` ahead:
        their module-level names bound to the datetime module / the datetime and date classes / the time module are rebound to
        stand-ins that differ from the real ones in now(), utcnow(), today(), time() only (instances are still ordinary datetimes)."""

        def __init__(self, shift):
            import datetime as real, time as rtime, types
            self.shift = shift
            rdt, rd = real.datetime, real.date

            class Meta(type(rdt)):
                def __instancecheck__(cls, x):
                    return isinstance(x, rdt if cls.__name__ == 'datetime' else rd)

                def __subclasscheck__(cls, c):
                    return issubclass(c, rdt if cls.__name__ == 'datetime' else rd)
            ns = {'__new__': lambda cls, *a, **k: rdt(*a, **k), 'now': classmethod(lambda cls, tz=None: rdt.now(tz) + shift),
                  'utcnow': classmethod(lambda cls: rdt.utcnow() + shift), 'today': classmethod(lambda cls: rdt.today() + shift)}
            self.dt = Meta('datetime', (rdt,), ns)
            self.d = Meta('date', (rd,), {'__new__': lambda cls, *a, **k: rd(*a, **k), 'today': classmethod(lambda cls: (rdt.today() + shift).date())})
            self.mod = types.ModuleType('datetime')
            self.mod.__dict__.update({k: v for k, v in vars(real).items() if not k.startswith('__')})
            self.mod.datetime, self.mod.date = self.dt, self.d
            self.tmod = types.ModuleType('time')
            self.tmod.__dict__.update({k: v for k, v in vars(rtime).items() if not k.startswith('__')})
            secs = shift.total_seconds()
            self.tmod.time = lambda: rtime.time() + secs
            self.tmod.time_ns = lambda: rtime.time_ns() + int(secs * 1e9)
            self.tmod.localtime = lambda *a: rtime.localtime(*(a or (rtime.time() + secs,)))
            self.tmod.gmtime = lambda *a: rtime.gmtime(*(a or (rtime.time() + secs,)))
            self.real, self.rtime, self.rdt, self.rd = real, rtime, rdt, rd
            self.undo = []

        def __enter__(self):
            roots = (os.path.join(env.REPO, 'hotxlfp') + os.sep, os.sep + 'dateutil' + os.sep)
            for mod in list(sys.modules.values()):
                fn = getattr(mod, '__file__', None) or ''
                if not (fn.startswith(roots[0]) or roots[1] in fn):
                    continue
                for k, v in list(vars(mod).items()):
                    new = self.mod if v is self.real else (self.dt if v is self.rdt else (self.d if v is self.rd else (self.tmod if v is self.rtime else None)))
                    if new is not None:
                        self.undo.append((mod, k, v))
                        setattr(mod, k, new)
            return self

        def __exit__(self, *exc):
            for mod, k, v in self.undo:
                setattr(mod, k, v)
            del self.undo[:]
            return False

    def c_ambient_reads(self, spec, rec):
        import datetime
        import random
        spy = probe.AmbientReads().start()
        if not spy.active:
            rec.inconcl('the CALL-event spy could not be started')
            return
        try:
            p = build(Bindings(), False)
            fs = [f for k, f in enumerate(self.order_formulas(spec['seed'], spec['per_function'])) if k % spec['k'] == spec['i']]
            texts = ['March 2020', '5 March', '10:30', '2020-02-29', 'Feb 29', '12/25', 'Monday', '2020', '1-2', 'Sept', '23:59:59', '2021-W05', 'Tue 3pm', '31.12.', 'noon', 'today', 'now', '7 pm']
            from hotxlfp import formulas
            if spec['i'] == 0:
                for fn in formulas.supported():
                    for t in texts:
                        fs += ['%s("%s")' % (fn, t), '%s("%s",1)' % (fn, t), '%s(1,"%s")' % (fn, t), '%s("%s","%s")' % (fn, t, texts[0])]
                # aggregates over lists long enough for an implementation to switch algorithm
                p.set_variable('v_long', [(k * 37) % 101 for k in range(60)])
                p.set_variable('v_longer', [(k * 53) % 1009 / 4.0 for k in range(700)])
                for fn in formulas.supported():
                    fs += ['%s(v_long)' % fn, '%s(v_long,3)' % fn, '%s(v_longer,20)' % fn, '%s(v_long,v_long)' % fn, '%s(v_long,">50")' % fn]
                for t in texts:
                    fs += ['"%s"+0' % t, '1+"%s"' % t, '"%s"-"%s"' % (t, texts[3]), '"%s"<DATE(2020,1,1)' % t, '"%s"=43891' % t, '"%s"&""' % t, '-"%s"' % t, '{"%s"}+1' % t]
            shifts = [datetime.timedelta(days=1, hours=1), datetime.timedelta(days=40, hours=13), datetime.timedelta(days=400, minutes=7)]
            for f in fs:
                up = f.upper()
                volatile_clock = 'NOW' in up or 'TODAY' in up
                volatile_rand = 'RAND' in up
                spy.reset()
                state = random.getstate()
                first = outcome(p.parse(f))
                rec.case()
                reads = list(spy.hits)
                if random.getstate() != state and not volatile_rand:
                    rec.violation('C02/evaluation-without-RAND-or-RANDBETWEEN-advances-the-random-source:' + f.split('(')[0][:16], formula=f, outcome=first)
                    random.setstate(state)
                rec.count('evaluations_spied_on')
                if not reads:
                    continue
                rec.count('clock_reads_seen', len(reads))
                for r in reads:
                    rec.cov('clock_read_by', r[1] + ':' + r[2])
                if volatile_clock:
                    continue
                # the clock was read by a formula that has no business with it: does the outcome depend on what it read?
                rec.count('clock_reads_by_formulas_without_NOW_or_TODAY')
                # (the stand-in clock must be neutral for this formula: the same outcome with a shift of nothing, else no verdict)
                try:
                    with self.ShiftedClock(datetime.timedelta(0)):
                        neutral = outcome(p.parse(f))
                except Exception:
                    neutral = None
                if neutral != first:
                    rec.count('stand_in_clock_not_neutral_no_verdict')
                    continue
                for sh in shifts:
                    try:
                        with self.ShiftedClock(sh):
                            again = outcome(p.parse(f))
                    except Exception as e:
                        rec.count('shifted_clock_rerun_failed.' + type(e).__name__)
                        continue
                    rec.case()
                    if again != first:
                        rec.violation('C02/outcome-depends-on-the-clock-without-NOW-or-TODAY:' + f.split('(')[0][:16], formula=f, outcome=first, with_the_clock_ahead_by=str(sh), outcome_then=again, clock_read_at=reads[:2])
                        break
                rec.nt(('clock', f))
        finally:
            spy.stop()
        rec.sample({'formula': 'DAY("March 2020")', 'what': 'clock reads are spied on (sys.monitoring CALL events); a formula without NOW/TODAY that read the clock is re-evaluated with the clock 1, 40 and 400 days ahead'})

    # ------------------------------------------------------------------ (c) retention
    def c_retention(self, spec, rec):
        import random
        rnd = random.Random('retention:%s' % spec['seed'])
        b = Bindings()
        p = build(b, False)
        ok_formulas = ['1+2*3', 'SUM(1,2,{3,4})', '"a"&"b"', 'IF(xa>2,"big","small")', 'A1+B2', 'MAX(A1:B2)', 'ROMAN(1999)', 'DATE(2020,1,1)+5', 'CF(lst)', 'foo*2', '{1,2;3,4}', '2^3+50%',
                       'INNER(2)*3', 'TEXTJOIN(",",TRUE,txt,"c")', 'COUNTIF({"ab","cd"},"a*")', 'IFERROR(1/0,7)', 'ISERROR(MAX(NA()))', 'IFERROR(ERRR(1),2)', '1/0+1', 'NA()']
        bad_formulas = ['1+', '((', '"x', u'§', '#FOO', 'SUM(', '1 2', 'NOSUCH(1)+1', 'SYN(1)', 'BOOM(2)', '1/0', 'SUM(1/0)', 'nosuch', '#N/A', 'A1:B2:C3', '{1,2', ',', 'x y', 'ACOS(2)',
                        'ERRR(1)+1', 'MAX(NA())', '#REF!+1', 'INDEX(lst,99)+BOOM()', 'Z9+BOOM()', 'nosuch+nosuch', 'SUM(NOSUCH(1))', '-BOOM()', 'CONCATENATE(ERRR(1))', '1/0&BOOM()', 'AVERAGE()']
        K = spec['K']
        if spec['mix'] == 'failing':
            corpus = [rnd.choice(bad_formulas) if i % 2 else rnd.choice(ok_formulas) for i in range(K)]
        else:
            corpus = [rnd.choice(ok_formulas) for i in range(K)]
        def raisev(k):
            raise ValueError('host failure number %r at %s' % (k, 'x' * (int(k) % 7)))
        p.set_function('RAISEV', raisev)
        p.set_function('OWNXL', lambda k: hx.errors().XLError('#CUSTOM%d!' % int(k)))
        R = spec['R']
        blocks = [0] * (R + 3)
        census = [None, None]
        singles = list(hx.error_objects().values())

        def tblen():
            n = 0
            for e in singles:
                tb = e.__traceback__
                while tb is not None:
                    n += 1
                    tb = tb.tb_next
            return n

        fresh_counter = [0]

        def fresh_formula():
            # references, names and literals that were never seen before: a long-lived process meets new ones all the time
            fresh_counter[0] += 1
            k = fresh_counter[0]
            from ..models import cells as mcells
            lab = '%s%d' % (mcells.col_label(k % 16000), 1 + k % 900000)
            lab2 = '%s%d' % (mcells.col_label((k * 7) % 16000), 1 + (k * 13) % 900000)
            return ['%s+1' % lab, '%s&"s%d"' % (lab, k), 'SUM(%s:%s)' % (lab, lab2), 'nv_%d_x' % k, 'NFN%d_(1)' % k, '%d*2' % (k + 1000), 'IFERROR(nv_%d_y,%d)' % (k, k),
                    'xa+%d.5' % k, '$%s+%s' % (lab, lab2.lower()),
                    # failures whose text is new every time: a host exception with a varying message, an unknown error literal, a host-built error object
                    'RAISEV(%d)' % k, '#E%d!' % k, 'OWNXL(%d)+1' % k, 'RAISEV(%d)&%s' % (k, lab)][k % 13]

        def one_pass():
            if spec['mix'] == 'fresh':
                for _ in range(K):
                    p.parse(fresh_formula())
                return
            for f in corpus:
                p.parse(f)
        for _ in range(2):
            one_pass()
        gc.collect()
        census[0] = collections.Counter(type(o).__name__ for o in gc.get_objects())
        tb0 = tblen()
        blocks[0] = sys.getallocatedblocks()
        for i in range(1, R + 1):
            one_pass()
            gc.collect()
            blocks[i] = sys.getallocatedblocks()
        tb1 = tblen()
        gc.collect()
        census[1] = collections.Counter(type(o).__name__ for o in gc.get_objects())
        rec.case(R * K)
        for i in range(R):
            rec.nt(('pass', spec['mix'], i))
        deltas = [blocks[i + 1] - blocks[i] for i in range(R)]
        grew = {k: v - census[0].get(k, 0) for k, v in census[1].items() if v - census[0].get(k, 0) > R}
        rec.series['retention.%s.block_deltas_per_pass' % spec['mix']] = deltas
        rec.series['retention.%s.types_grown' % spec['mix']] = dict(sorted(grew.items(), key=lambda kv: -kv[1])[:8])
        rec.series['retention.%s.traceback_chain_length' % spec['mix']] = [tb0, tb1]
        threshold = K // 4
        if all(d >= threshold for d in deltas):
            what = 'traceback/frame' if (grew.get('traceback', 0) + grew.get('frame', 0)) > R else ('+'.join(sorted(grew)[:3]) or 'untracked-blocks')
            rec.violation('C02/memory-retained-per-evaluation:%s:%s' % (spec['mix'], what), corpus_size=K, passes=R, block_deltas=deltas, types_grown=grew,
                          traceback_chain_before_after=[tb0, tb1])
        if tb1 - tb0 >= R * 4 and tb1 > 4 * tb0 + 50:
            rec.violation('C02/error-singletons-accumulate-tracebacks', before=tb0, after=tb1, passes=R)
        rec.sample({'corpus': corpus[:6], 'passes': R, 'block_deltas': deltas})

    # ------------------------------------------------------------------ (c') retention of ONE formula repeated
    def c_retention_each(self, spec, rec):
        """In a mixed corpus another formula may happen to release what this one retains (a traceback chain cleared by the next
        raised error).  So every formula is also repeated on its own: growth in both halves of the repetition is retention."""
        from hotxlfp import formulas
        b = Bindings()
        p = build(b, False)
        fs = []
        for fn in formulas.supported():
            for args in ('1/0', '1,NA()', 'A1:B2,1/0', 'lst,ERRR(1)'):
                fs.append('%s(%s)' % (fn, args))
                fs.append('IFERROR(%s(%s),0)' % (fn, args))
        fs += ['1/0', 'NA()+1', 'ERRR(1)', 'BOOM(1)', 'SYN(1)', 'nosuch', 'NOSUCH(1)', '1+', u'\xa7', '#REF!', 'A1:B2:C3', 'IFERROR(ERRR(1),2)', '-(1/0)', '(1/0)&"a"', '(1/0)=1',
               'CONCATENATE(1/0)', 'INDEX(lst,99)', 'A1+B2', 'SUM(A1:B2)', 'foo', 'CF(lst)', 'INNER(1)', '{1,2}+{1,2,3}', 'Z9+BOOM()']
        fs = fs[spec['i']::spec['k']]
        N = spec['N']
        marks = [0, 0, 0]
        for f in fs:
            for _ in range(12):
                p.parse(f)
            gc.collect()
            marks[0] = sys.getallocatedblocks()
            for _ in range(N):
                p.parse(f)
            gc.collect()
            marks[1] = sys.getallocatedblocks()
            for _ in range(N):
                p.parse(f)
            gc.collect()
            marks[2] = sys.getallocatedblocks()
            rec.case(2 * N)
            rec.nt(('each', f))
            d1, d2 = marks[1] - marks[0], marks[2] - marks[1]
            if d1 >= N // 3 and d2 >= N // 3:
                tb = 0
                for e in hx.error_objects().values():
                    t = e.__traceback__
                    while t is not None:
                        tb += 1
                        t = t.tb_next
                rec.violation('C02/memory-retained-per-evaluation:one-formula-repeated:%s' % ('traceback-chain' if tb > N else 'other'), formula=f, repetitions=N,
                              blocks_first_half=d1, blocks_second_half=d2, traceback_chain_length=tb)
                for e in hx.error_objects().values():       # report each formula on its own merits
                    e.__traceback__ = None
            rec.count('formulas_repeated')
        rec.sample({'formula': fs[0], 'repetitions': 2 * N})

    # ------------------------------------------------------------------ (a'') many aborted evaluations, then a probe
    def c_fault_repetition(self, spec, rec):
        """the same kind of failing evaluation N times on one parser (a counter that leaks one step per fault needs many), then probes"""
        import random
        rnd = random.Random('faultrep:%s:%s' % (spec['seed'], spec['i']))
        kinds = ['cell-listener-raises', 'range-listener-raises', 'variable-listener-raises', 'function-listener-raises', 'custom-function-raises', 'syntax-error',
                 'unknown-name', 'error-literal']
        kind = kinds[spec['i'] % len(kinds)]
        b = Bindings()
        state = {'raise': True}
        aged = build(b, False)
        fresh_extra = []

        def raising(*a):
            if state['raise']:
                raise KeyError('host lookup failed')
        ev = {'cell-listener-raises': 'callCellValue', 'range-listener-raises': 'callRangeValue', 'variable-listener-raises': 'callVariable',
              'function-listener-raises': 'callFunction'}.get(kind)
        if ev:
            aged.on(ev, raising)
        f = {'cell-listener-raises': 'A1+1', 'range-listener-raises': 'SUM(A1:B2)', 'variable-listener-raises': 'foo+1', 'function-listener-raises': 'CF(1)+1',
             'custom-function-raises': 'BOOM(1)+A1', 'syntax-error': 'A1+(', 'unknown-name': 'A1+nosuch', 'error-literal': 'A1+#REF!'}[kind]
        for _ in range(spec['N']):
            aged.parse(f)
            rec.case()
        state['raise'] = False
        hist = [('parse x%d' % spec['N'], f)]
        for pf in self.probes(rnd, 40) + ['A1+B2', 'SUM(A1:B2)', 'foo*2', 'CF(A1,foo)', 'A1&foo']:
            # the fresh parser carries the same (now silent) listener
            oa = outcome(aged.parse(pf))
            fresh = build(b, False)
            if ev:
                fresh.on(ev, raising)
            of = outcome(fresh.parse(pf))
            rec.case()
            rec.nt((kind, pf))
            if oa != of:
                rec.violation('C02/outcome-depends-on-history:after-many-aborted-evaluations:' + kind, probe=pf, aged=oa, fresh=of, repeated_formula=f, repetitions=spec['N'])
        rec.cov('fault_repetition_kinds', kind)
        rec.sample({'repeated': f, 'times': spec['N'], 'kind': kind})

    # ------------------------------------------------------------------ sentinels
    def c_sentinels(self, spec, rec):
        b = Bindings()
        aged = build(b, False)
        hist = []
        for f in GARBAGE + GARBAGE[::-1]:
            aged.parse(f)
            hist.append(('parse', f))
        import random
        rnd = random.Random(5)
        for f in self.probes(rnd, 60):
            self.compare(rec, aged, b, f, False, hist)
        # a listener stays registered for as long as the parser lives, whatever becomes of the host's own references to it: a bound method
        # of an object the host keeps nowhere else, a closure, a lambda - the outcome depends on the registrations, not on the collector
        import hotxlfp

        class Sheet(object):
            def __init__(self, cells):
                self.cells = cells

            def cell_value(self, cell, setter):
                setter(self.cells.get(cell.label))

            def variable(self, name, setter):
                if name == 'from_sheet':
                    setter(self.cells.get('A1'))

        def make():
            q = hotxlfp.Parser()
            q.on('callCellValue', Sheet({'A1': 2, 'B2': 5}).cell_value)
            q.on('callVariable', Sheet({'A1': 7}).variable)
            q.once('callRangeValue', Sheet({}).cell_value)
            return q
        q = make()
        first = [outcome(q.parse(f)) for f in ('A1*21', 'A1+B2', 'from_sheet+1')]
        gc.collect()
        junk = [object() for _ in range(1000)]
        del junk
        gc.collect()
        again = [outcome(q.parse(f)) for f in ('A1*21', 'A1+B2', 'from_sheet+1')]
        rec.case()
        if first != again or first != [('ok', ('int', 42)), ('ok', ('int', 7)), ('ok', ('int', 8))]:
            rec.violation('C02/outcome-changes-when-the-host-drops-its-own-reference-to-a-listener', first=first, after_collection=again)
        # a re-binding between two evaluations of the same text must be seen (a cache keyed on text alone is caught)
        for name, v1, v2, f in (('xa', 4, 40, 'xa+1'), ('foo', 5, 'five', 'foo&"!"'), ('lst', [1, 2], [3, 4, 5], 'SUM(lst)')):
            aged.set_variable(name, v1)
            b.variables[name] = v1
            aged.parse(f)
            aged.set_variable(name, v2)
            b.variables[name] = v2
            hist.append(('set_variable', name, v2))
            self.compare(rec, aged, b, f, False, hist)
        for bad in ('A1+NOSUCH(B2)', 'A1+', 'A1+#N/A', 'A1+BOOM(B2)', 'SUM(A1:B2)+BOOM()', 'Z9&SYN(1)'):
            aged.parse(bad)
            hist.append(('parse', bad))
            b.state['cell_offset'] += 7
            b.state['range_value'] = [[b.state['cell_offset'], 1], [2, 3]]
            hist.append(('host-data-change', dict(b.state)))
            for f in ('A1*2', 'A1+B2', 'SUM(A1:B2)', 'Z9', 'MAX(A1:B2)+A1'):
                self.compare(rec, aged, b, f, False, hist)
        # the bindings that answer are those registered on THIS parser, also for the lookups that follow a callback which itself
        # evaluated something on another parser with other bindings (a multi-sheet host): judged against the values, not against a twin
        hx_ = env.load()
        for debug in (False, True):
            one, two = hx_.Parser(debug=debug), hx_.Parser(debug=debug)
            one.set_variable('rate', 5)
            two.set_variable('rate', 100)
            one.on('callCellValue', lambda c, s: s(1))
            two.on('callCellValue', lambda c, s: s(1000))
            one.set_function('LOCAL', lambda x: x + 1)
            two.set_function('LOCAL', lambda x: x + 1000)
            one.set_function('SHEET2', lambda: two.parse('rate+A1+LOCAL(0)')['result'])
            one.on('callVariable', lambda n, s: two.parse('rate') if n == 'rate' else None)
            for f, exp in (('SHEET2()+rate', 2105), ('SHEET2()+A1', 2101), ('SHEET2()+LOCAL(1)', 2102), ('SHEET2()&rate&A1', '210051'), ('rate+SHEET2()+rate+A1+LOCAL(0)', 2112),
                           ('SUM(SHEET2(),rate,A1:B2)', 2105), ('IF(SHEET2()>0,rate,0)', 5)):
                r = one.parse(f)
                rec.case()
                rec.nt(('other-parser-inside-callback', f, debug))
                if f.startswith('SUM('):
                    continue        # no range listener on `one`: only that it does not crash
                if r != {'result': exp, 'error': None}:
                    rec.violation('C02/lookup-after-nested-evaluation-on-another-parser-answered-by-other-bindings', formula=f, record=r, expected=exp, debug=debug)
        # NOW()/TODAY() follow the clock at every evaluation - also after evaluations that were aborted by an exception of any kind, including
        # the ones parse() lets through (KeyboardInterrupt, a host's own cancellation signal derived from BaseException)
        import datetime as _dt, time as _time

        class Cancelled(BaseException):
            pass
        hx_ = env.load()
        for kind in ('Cancelled', 'KeyboardInterrupt', 'ValueError', 'none'):
            P = hx_.Parser()

            def stop(*a, _kind=kind):
                if _kind == 'Cancelled':
                    raise Cancelled()
                if _kind == 'KeyboardInterrupt':
                    raise KeyboardInterrupt()
                if _kind == 'ValueError':
                    raise ValueError('x')
                return 0
            P.set_function('STOP', stop)
            P.on('callCellValue', lambda c, s_: stop())
            for f in ('STOP()+NOW()', 'NOW()+STOP()', 'A1+TODAY()', 'SUM(NOW(),STOP())'):
                try:
                    P.parse(f)
                except BaseException:
                    pass
            seen = []
            for Q in (P, hx_.Parser(), P):
                t0 = _dt.datetime.now()
                r = Q.parse('NOW()')
                t1 = _dt.datetime.now()
                rec.case()
                ok = r['error'] is None and isinstance(r['result'], _dt.datetime) and t0 <= r['result'] <= t1
                if not ok:
                    rec.violation('C02/NOW-does-not-follow-the-clock:after-aborted-evaluations', aborted_by=kind, clock_before=t0, result=r, clock_after=t1)
                seen.append(r['result'])
                _time.sleep(0.003)
            rec.nt(('clock-after-abort', kind))
            r = P.parse('TODAY()')
            if r['result'] != _dt.datetime.combine(_dt.date.today(), _dt.time()) and r['result'] != _dt.datetime.combine((_dt.datetime.now() - _dt.timedelta(seconds=5)).date(), _dt.time()):
                rec.violation('C02/TODAY-does-not-follow-the-clock:after-aborted-evaluations', aborted_by=kind, result=r)
        b.functions['CF'] = ('const', 99)
        aged.parse('CF(1)')
        aged.set_function('CF', make_function(('const', 99)))
        self.compare(rec, aged, b, 'CF(1)', False, hist)

    def judge(self, merged, tier):
        why = []
        c = merged['counts']
        if c.get('contract_evals.C02.arg_snapshot', 0) == 0:
            why.append('the registry-argument contract was never evaluated')
        if c.get('snapshot_comparisons', 0) < 1000:
            why.append('fewer than 1000 snapshot comparisons')
        if not any(k.startswith('retention.failing') for k in merged['series']):
            why.append('the retention run did not report')
        return why
