"""C11 - aggregates equal their definitions over exactly the selected items.

Boundary recorder vs exact-rational textbook statistics: each list is rendered as separate arguments, array literals,
nested arrays, a two-row array, a host variable or a range, in random permutations and partitions; conditional
aggregates are compared with the same statistics over the positions selected by an independent criteria model.
A probe on parse_criteria records which of the three criterion forms was compiled.
"""
import math
import collections
from fractions import Fraction as Fr

from .common import FormulaCheck
from ..oracle import finite, close, CODES8
from .. import hx, probe


def mean(xs):
    return sum(map(Fr, xs)) / len(xs)


def var(xs, pop):
    m = mean(xs)
    return sum((Fr(x) - m) ** 2 for x in xs) / (len(xs) - (0 if pop else 1))


def median(xs):
    s = sorted(map(Fr, xs))
    n = len(s)
    return s[n // 2] if n % 2 else (s[n // 2 - 1] + s[n // 2]) / 2


def prod(xs):
    p = Fr(1)
    for x in xs:
        p *= Fr(x)
    return p


REFS = {
    'SUM': lambda xs: sum(map(Fr, xs)), 'PRODUCT': prod, 'AVERAGE': mean, 'MIN': lambda xs: min(map(Fr, xs)), 'MAX': lambda xs: max(map(Fr, xs)),
    'COUNT': lambda xs: Fr(len(xs)), 'MEDIAN': median,
    'VAR': lambda xs: var(xs, 0), 'VAR.S': lambda xs: var(xs, 0), 'VAR.P': lambda xs: var(xs, 1), 'VARP': lambda xs: var(xs, 1),
    'AVEDEV': lambda xs: sum(abs(Fr(x) - mean(xs)) for x in xs) / len(xs),
}
SQRT_REFS = {'STDEV': 0, 'STDEV.S': 0, 'STDEV.P': 1, 'STDEVP': 1}
NEED2 = ('VAR', 'VAR.S', 'STDEV', 'STDEV.S')
EPS = Fr(1, 2 ** 52)


def data_tolerance(xs, second_moment=False):
    """What a careful floating-point evaluation may lose on these data, as an absolute amount: a few rounding errors at the
    scale of the items (times the spread for second moments).  It is added to the 1e-9 band so that ill-conditioned data
    (a large common offset) do not raise an alarm, while a one-pass variance (error ~ eps * mean^2) still does."""
    M = max(abs(Fr(x)) for x in xs)
    S = max(map(Fr, xs)) - min(map(Fr, xs))
    t = 8 * len(xs) * EPS * M
    return t * max(1, S) if second_moment else t


def near(g, ref, extra):
    return finite(g) and abs(Fr(g) - Fr(ref)) <= Fr(1, 10 ** 9) * max(1, abs(Fr(ref))) + extra

PROPAGATING = ('SUM', 'PRODUCT', 'AVERAGE', 'MIN', 'MAX', 'MEDIAN')


def L(x):
    return hx.strlit(x) if isinstance(x, str) else hx.lit(x)


def wild(pattern, text):
    """anchored match, * = any run, ? = one character (written without fnmatch/re)"""
    if not pattern:
        return not text
    if pattern[0] == '*':
        return any(wild(pattern[1:], text[i:]) for i in range(len(text) + 1))
    if not text:
        return False
    if pattern[0] == '?' or pattern[0] == text[0]:
        return wild(pattern[1:], text[1:])
    return False


class Check(FormulaCheck):
    ID = 'C11'
    TITLE = 'Aggregates equal their definitions over exactly the selected items'
    TECHNIQUE = 'boundary recorder on Parser.parse vs exact-rational statistics and an independent criteria-selection model; regrouping/permutation renderings'
    RULE = ('case = one aggregate call on a list of 1-40 integers/decimals of either sign with duplicates, rendered as separate arguments, array literal, '
            'nested arrays, two-row array, host variable or range, in random permutations and partitions; or one conditional aggregate with 1-3 criteria of the '
            'three forms against equal-length numeric/text criteria ranges; or one propagating aggregate with an error item of each code at each position. '
            'non-trivial = compared with the exact reference; distinct = distinct formula + bindings.')
    ASSUMPTIONS = ('numeric items only; with several modes MODE may report any of them; GEOMEAN/HARMEAN on positive items; SLOPE called as ys then xs scalars, xs integers or integers in other units (x 1e-9 .. 1e6)',
                   'criteria are strings; comparison criteria on numeric cells, wildcard criteria on lower-case text cells; criterion numbers are read as doubles',
                   'nothing selected: 0 for SUMIF(S)/COUNTIF/MAXIFS, any error for AVERAGEIF(S)')

    def plan(self, tier, seed):
        q = tier == 'quick'
        specs = [{'campaign': 'sentinels'}]
        for i in range(16):
            specs.append({'campaign': 'lists', 'seed': seed, 'n': 160 if q else 5000, 'i': i})
            specs.append({'campaign': 'criteria', 'seed': seed, 'n': 800 if q else 15000, 'i': i})
        specs.append({'campaign': 'errors', 'seed': seed, 'n': 4 if q else 120})
        return specs

    def prepare(self, spec, rec):
        self.range_value = None
        self.e.p.on('callRangeValue', lambda a, b, setter: setter(self.range_value))
        self.cp = probe.CallProbe()
        from hotxlfp.formulas import utils
        if hasattr(utils, 'parse_criteria'):
            def hit(name, frame):
                c = frame.f_locals.get('criteria')
                if isinstance(c, str):
                    rec.cov('criterion_forms', 'comparison' if c[:1] in '<>=' else ('wildcard' if ('*' in c or '?' in c) else 'bare'))
            self.cp.add(utils.parse_criteria, hit, 'parse_criteria')
        else:
            rec.count('probe_missing')

    def run(self, spec, rec):
        try:
            FormulaCheck.run(self, spec, rec)
        finally:
            cp = getattr(self, 'cp', None)
            if cp is not None:
                cp.stop()

    # ------------------------------------------------------------------ renderings
    def render(self, xs, rnd):
        """argument text for the list xs, regrouped at random; returns (text, shapes used)"""
        mode = rnd.random()
        if mode < 0.12:
            self.e.bind(v_list=list(xs))
            return 'v_list', ['hostlist']
        if mode < 0.2:
            self.range_value = [list(xs[:len(xs) // 2]), list(xs[len(xs) // 2:])] if len(xs) > 1 else list(xs)
            return 'B2:D9', ['range']
        parts, shapes, i = [], [], 0
        while i < len(xs):
            k = rnd.randint(1, 4)
            chunk = xs[i:i + k]
            i += k
            m = rnd.random()
            if m < 0.4 or (len(chunk) == 1 and m < 0.7):
                parts.append(','.join(L(x) for x in chunk))
                shapes.append('args')
            elif m < 0.7:
                parts.append('{' + rnd.choice(',;\\') .join(L(x) for x in chunk) + '}')
                shapes.append('array')
            elif m < 0.85 and len(chunk) == 4:
                parts.append('{%s,%s;%s,%s}' % tuple(L(x) for x in chunk))
                shapes.append('two-row-array')
            elif len(chunk) > 1:
                parts.append('{' + L(chunk[0]) + ',{' + ','.join(L(x) for x in chunk[1:]) + '}}')
                shapes.append('nested-array')
            else:
                parts.append('{' + L(chunk[0]) + '}')
                shapes.append('array')
        return ','.join(parts), shapes

    def numbers(self, rnd, n):
        if rnd.random() < 0.12:
            # a large common offset with a small spread (one-pass variance formulas cancel here), or identical items
            off = rnd.choice([1e5, 1e6, 123456.5, 1e8, -2.5e7, 1000.25])
            if rnd.random() < 0.25:
                return [rnd.choice([0.7, 100000.1, 3.3, off])] * n
            return [off + round(rnd.uniform(-1, 1), rnd.randint(1, 3)) for _ in range(n)]
        return [rnd.choice([rnd.randint(-50, 50), rnd.randint(-5, 5), round(rnd.uniform(-100, 100), rnd.randint(1, 3)), rnd.choice([0.5, 0.25, -1.75, 2.5])]) for _ in range(n)]

    def c_lists(self, spec, rec):
        rnd = self.rng(spec)
        for _ in range(spec['n']):
            n = rnd.randint(1, rnd.choice([4, 12, 40]))
            xs = self.numbers(rnd, n)
            ys = xs[:]
            rnd.shuffle(ys)
            for fn in list(REFS) + list(SQRT_REFS):
                if fn in NEED2 and n < 2:
                    continue
                ref = REFS[fn](xs) if fn in REFS else None
                got = []
                for arr in (xs, ys):
                    txt, shapes = self.render(arr, rnd)
                    f = '%s(%s)' % (fn, txt)
                    g = self.ev(f)
                    got.append(g)
                    rec.nt((f, tuple(arr) if 'v_list' in f or 'B2' in f else ()))
                    for s in shapes:
                        rec.cov('function_x_shape', (fn, s))
                    if ref is not None and abs(ref) > Fr(10) ** 300:
                        rec.count('skipped.overflow')
                        continue
                    if ref is not None:
                        ok = near(g, ref, data_tolerance(xs, fn.startswith('VAR')))
                    else:
                        v = var(xs, SQRT_REFS[fn])
                        ok = (finite(g) and g >= 0 and abs(Fr(g) ** 2 - v) <= Fr(1, 10 ** 8) * max(1, v) + data_tolerance(xs, True)) if v > 0 else (finite(g) and abs(g) <= 1e-15)
                    self.expect('C11/%s:differs-from-definition' % fn, ok, formula=f[:300], items=arr, got=g, expected=float(ref) if ref is not None else 'sqrt(%s)' % float(var(xs, SQRT_REFS[fn])))
                if len(got) == 2 and all(finite(g) for g in got):
                    self.expect('C11/%s:changes-under-reordering-or-regrouping' % fn,
                                abs(Fr(got[0]) - Fr(got[1])) <= Fr(1, 10 ** 9) * max(1, abs(Fr(got[0]))) + 2 * data_tolerance(xs, fn.startswith(('VAR', 'STDEV'))), items=xs, got=got)
            pos = [abs(x) + 0.5 for x in xs]
            txt, _ = self.render(pos, rnd)
            g = self.ev('GEOMEAN(%s)' % txt)
            ref = math.exp(sum(math.log(x) for x in pos) / len(pos))
            self.expect('C11/GEOMEAN:differs-from-definition', finite(g) and abs(g - ref) <= 1e-9 * max(1, ref) + float(data_tolerance(pos)), items=pos, got=g, expected=ref)
            if rnd.random() < 0.25:
                # many large items, many tiny ones, or both extremes mixed in sorted order: the mean is an ordinary number although the running
                # product (or the sum of reciprocals) is not
                kind = rnd.choice(['large', 'tiny', 'mixed-sorted', 'mixed-reversed'])
                m_ = rnd.randint(30, 40)
                if kind == 'large':
                    big = [rnd.uniform(5e7, 9e9) for _ in range(m_)]
                elif kind == 'tiny':
                    big = [rnd.uniform(1e-12, 9e-9) for _ in range(m_)]
                else:
                    big = sorted([10.0 ** rnd.uniform(150, 200) for _ in range(3)] + [10.0 ** rnd.uniform(-200, -150) for _ in range(3)], reverse=(kind == 'mixed-reversed'))
                self.e.bind(v_big=big)
                refb = math.exp(sum(math.log(x) for x in big) / len(big))
                g = self.ev('GEOMEAN(v_big)')
                self.expect('C11/GEOMEAN:differs-from-definition:extreme-magnitudes', finite(g) and abs(g - refb) <= 1e-9 * refb, kind=kind, items=big[:6], got=g, expected=refb)
                g = self.ev('HARMEAN(v_big)')
                refh = len(big) / sum(1 / Fr(x) for x in big)
                self.expect('C11/HARMEAN:differs-from-definition:extreme-magnitudes', finite(g) and abs(Fr(g) - refh) <= Fr(1, 10 ** 9) * refh, kind=kind, items=big[:6], got=g, expected=float(refh))
                rec.nt(('means-extreme', kind, tuple(big[:3])))
            txt, _ = self.render(pos, rnd)
            g = self.ev('HARMEAN(%s)' % txt)
            self.expect('C11/HARMEAN:differs-from-definition', near(g, len(pos) / sum(1 / Fr(x) for x in pos), data_tolerance(pos)), items=pos, got=g)
            k = rnd.randint(1, n)
            g = self.ev('LARGE({%s},%d)' % (','.join(L(x) for x in xs), k))
            self.expect('C11/LARGE:differs-from-definition', finite(g) and close(g, sorted(map(Fr, xs), reverse=True)[k - 1]), items=xs, k=k, got=g)
            host_list = list(xs)
            # k-th largest is order-free: the same whatever rows the items are grouped into (a grid, a column, ragged rows)
            cut = rnd.randint(1, max(1, len(xs) - 1))
            for nested in ([list(xs[:cut]), list(xs[cut:])] if len(xs) > 1 else [list(xs)], [[x] for x in xs], [list(xs)]):
                g = self.ev('LARGE(v_rows,v_k)', v_rows=nested, v_k=k)
                self.expect('C11/LARGE:differs-from-definition:items-grouped-in-rows', finite(g) and close(g, sorted(map(Fr, xs), reverse=True)[k - 1]), items=xs, rows=nested, k=k, got=g)
            g = self.ev('LARGE(v_list,v_k)', v_list=host_list, v_k=float(k))
            self.expect('C11/LARGE:differs-from-definition:k-held-as-float', finite(g) and close(g, sorted(map(Fr, xs), reverse=True)[k - 1]), items=xs, k=float(k), got=g)
            g = self.ev('LARGE(v_list,v_k)', v_list=host_list, v_k=k)
            self.expect('C11/LARGE:differs-from-definition', finite(g) and close(g, sorted(map(Fr, xs), reverse=True)[k - 1]), items=xs, k=k, got=g, host=True)
            # the very same list object named twice, and a grid whose rows are one aliased row: items count as often as they are named
            alias = list(xs)
            self.e.bind(v_list=alias, v_grid=[alias, alias], v_deep=[alias, [alias, 1]])
            for fn, ref in (('SUM', 2 * sum(map(Fr, xs))), ('COUNT', 2 * n), ('MAX', max(map(Fr, xs))), ('AVERAGE', mean(xs)), ('MEDIAN', None)):
                for f in ('%s(v_list,v_list)' % fn, '%s(v_grid)' % fn):
                    g = self.ev(f)
                    if ref is None:
                        s2 = sorted(list(map(Fr, xs)) * 2)
                        refv = (s2[n - 1] + s2[n]) / 2
                    else:
                        refv = ref
                    self.expect('C11/%s:same-host-list-named-twice' % fn, near(g, refv, data_tolerance(xs) * 2), formula=f, items=xs, got=g, expected=float(refv))
            g = self.ev('SUM(v_deep)')
            self.expect('C11/SUM:same-host-list-named-twice', near(g, 2 * sum(map(Fr, xs)) + 1, data_tolerance(xs) * 2), formula='SUM(v_deep)', items=xs, got=g)
            # ... and the items are still in the host's order: a later aggregate that pairs them with criteria cells by position sees the same list
            self.expect('C11/host-list-reordered-by-an-aggregate:LARGE', host_list == list(xs), before=xs, after=host_list)
            if n >= 2:
                crit = [i % 2 for i in range(n)]
                g = self.ev('LARGE(v_list,1)+SUMIFS(v_list,v_crit,"1")*0+SUMIFS(v_list,v_crit,"1")', v_list=host_list, v_crit=crit)
                ref = max(map(Fr, xs)) + sum(Fr(x) for x, c in zip(xs, crit) if c == 1)
                self.expect('C11/SUMIFS-after-LARGE-on-the-same-host-list', near(g, ref, data_tolerance(xs)), items=xs, got=g, expected=float(ref))
            c = collections.Counter(xs).most_common(2)
            if len(c) == 1 or c[0][1] > c[1][1]:
                for fn in ('MODE', 'MODE.SNGL'):
                    txt, _ = self.render(xs, rnd)
                    g = self.ev('%s(%s)' % (fn, txt))
                    self.expect('C11/MODE:differs-from-definition', finite(g) and close(g, c[0][0]), items=xs, got=g, expected=c[0][0])
            else:
                # several modes: which one is reported is free, but it is one of them (or an error)
                cnt = collections.Counter(xs)
                modes = [x for x, k_ in cnt.items() if k_ == c[0][1]]
                for fn in ('MODE', 'MODE.SNGL'):
                    txt, _ = self.render(xs, rnd)
                    g = self.ev('%s(%s)' % (fn, txt))
                    self.expect('C11/MODE:not-one-of-the-modes', self.is_err(g) or (finite(g) and any(close(g, m) for m in modes)), items=xs, got=g, modes=modes)
            if n >= 2:
                px = [rnd.randint(-20, 20) for _ in xs]
                xm, ym = mean(px), mean(xs)
                den = sum((Fr(x) - xm) ** 2 for x in px)
                g = self.ev('SLOPE(%s,%s)' % (','.join(L(y) for y in xs), ','.join(L(x) for x in px)))
                if den == 0:
                    ok = g == 'ERR:#DIV/0!'
                else:
                    ok = near(g, sum((Fr(x) - xm) * (Fr(y) - ym) for x, y in zip(px, xs)) / den, data_tolerance(xs) * 40)
                self.expect('C11/SLOPE:differs-from-definition', ok, ys=xs, xs=px, got=g)
                rec.nt(('slope', tuple(xs), tuple(px)))
                # the same regression with x in other units (micro-, milli-, mega-): the definition is scale-free, so is the answer's accuracy
                if den != 0 and rnd.random() < 0.5:
                    sc = rnd.choice([1e-9, 1e-6, 1e-6, 1e-4, 1e-3, 1e3, 1e6])
                    sx = [x * sc for x in px]
                    ys2 = [rnd.randint(-50, 50) for _ in xs]
                    xm2, ym2 = mean(sx), mean(ys2)
                    den2 = sum((Fr(x) - xm2) ** 2 for x in sx)
                    if den2 != 0:
                        ref = sum((Fr(x) - xm2) * (Fr(y) - ym2) for x, y in zip(sx, ys2)) / den2
                        self.e.bind(**{'v_y%d' % k: y for k, y in enumerate(ys2)})
                        self.e.bind(**{'v_x%d' % k: x for k, x in enumerate(sx)})
                        g = self.ev('SLOPE(%s,%s)' % (','.join('v_y%d' % k for k in range(len(ys2))), ','.join('v_x%d' % k for k in range(len(sx)))))
                        ok = finite(g) and abs(Fr(g) - ref) <= Fr(1, 10 ** 8) * max(abs(ref), Fr(1, 10 ** 6) / Fr(sc))
                        self.expect('C11/SLOPE:differs-from-definition:scaled-x', ok, ys=ys2, xs=sx, got=g, expected=float(ref))
                        rec.nt(('slope-scaled', tuple(ys2), tuple(sx)))
                # ... and with x far from the origin (years, timestamps, serials): the slope does not depend on where x = 0 is
                if den != 0 and rnd.random() < 0.5:
                    off = rnd.choice([1e4, 1e6, 43831, 1e8, 2020, 1.6e9 / 100]) + rnd.choice([0, 0.1, 0.5])
                    ox = [x + off for x in px]
                    ys3 = [rnd.randint(-50, 50) for _ in xs]
                    xm3, ym3 = mean(ox), mean(ys3)
                    den3 = sum((Fr(x) - xm3) ** 2 for x in ox)
                    if den3 != 0:
                        ref = sum((Fr(x) - xm3) * (Fr(y) - ym3) for x, y in zip(ox, ys3)) / den3
                        self.e.bind(**{'v_y%d' % k: y for k, y in enumerate(ys3)})
                        self.e.bind(**{'v_x%d' % k: x for k, x in enumerate(ox)})
                        g = self.ev('SLOPE(%s,%s)' % (','.join('v_y%d' % k for k in range(len(ys3))), ','.join('v_x%d' % k for k in range(len(ox)))))
                        ok = finite(g) and abs(Fr(g) - ref) <= Fr(1, 10 ** 6) * max(abs(ref), Fr(1, 100))
                        self.expect('C11/SLOPE:differs-from-definition:x-far-from-the-origin', ok, ys=ys3, xs=ox, got=g, expected=float(ref))
                        rec.nt(('slope-offset', tuple(ys3), tuple(ox)))
            rec.sample({'items': xs, 'example': 'AVERAGE(%s)' % self.render(xs, rnd)[0][:120]})

    # ------------------------------------------------------------------ conditional aggregates
    def criterion(self, rnd, cells):
        """(criteria string, predicate over python values) for a numeric or text range"""
        if isinstance(cells[0], str):
            w = rnd.choice(cells)
            k = rnd.random()
            if k < 0.3:
                return w, (lambda a, w=w: a == w), 'bare'
            if k < 0.5:
                pat = w[:rnd.randint(0, len(w))] + '*'
            elif k < 0.65:
                pat = '*' + w[rnd.randint(0, len(w)):]
            elif k < 0.8 and w:
                j = rnd.randrange(len(w))
                pat = w[:j] + '?' + w[j + 1:]
            elif k < 0.9:
                pat = '*' + w[1:-1] + '*' if len(w) > 2 else 'q*'
            else:
                pat = rnd.choice(['z*', '?', '*', 'a?*'])
            return pat, (lambda a, pat=pat: wild(pat, a)), 'wildcard'
        v = rnd.choice(list(cells) + [0, 1000, -1000, 2.5])
        op = rnd.choice(['>', '<', '>=', '<=', '=', '<>', ''])
        txt = op + (hx.numlit(abs(v)) if v >= 0 else '-' + hx.numlit(-v))
        if rnd.random() < 0.2:
            # the same number, or a tiny / huge one, in exponent notation - with and without a sign in the exponent
            w = rnd.choice([v, v, 1e-05, -3e-07, 2.5e+16, -1e+17, 1e5, 0.0])
            txt = op + rnd.choice(['%e', '%E', '%.3e', '%r']) % w
        V = Fr(float(txt[len(op):]))
        pred = {'>': lambda a: Fr(a) > V, '<': lambda a: Fr(a) < V, '>=': lambda a: Fr(a) >= V, '<=': lambda a: Fr(a) <= V,
                '=': lambda a: Fr(a) == V, '<>': lambda a: Fr(a) != V, '': lambda a: Fr(a) == V}[op]
        return txt, pred, 'comparison' if op else 'bare'

    def text_cells(self, rnd, n):
        # (some with characters that pattern languages other than * and ? give a meaning to: in a criterion they stand for themselves)
        words = ['apple', 'pear', 'plum', 'fig', 'kiwi', 'lime', 'date', 'nut', 'peach', 'pea', 'apricot', 'grape', 'ap', 'p', 'a[1]x', 'a1x', 'p[a-z]', 'pa', 'fig.', 'figs', 'nut+', 'k(i)wi', '[!p]ea',
                 'lime]', 'x^y', 'a{2}']
        return [rnd.choice(words) for _ in range(n)]

    def arr(self, cells, rnd):
        k = rnd.random()
        if k < 0.6:
            return '{' + ','.join(L(x) for x in cells) + '}'
        if k < 0.8:
            self._nvar = getattr(self, '_nvar', 0) + 1
            name = hx.varname(self._nvar % 40, 'rg')          # a fresh name per array within a formula
            self.e.bind(**{name: list(cells)})
            return name
        return '{' + ';'.join(L(x) for x in cells) + '}'

    def c_criteria(self, spec, rec):
        rnd = self.rng(spec)
        for _ in range(spec['n']):
            n = rnd.randint(1, 12)
            zs = [rnd.choice([rnd.randint(-9, 9), rnd.randint(-100, -1), round(rnd.uniform(-20, 20), 1)]) for _ in range(n)]
            ncrit = rnd.randint(1, 3)
            ranges, crits, preds = [], [], []
            for _k in range(ncrit):
                cells = self.text_cells(rnd, n) if rnd.random() < 0.35 else self.numbers(rnd, n)
                c, p, form = self.criterion(rnd, cells)
                ranges.append(cells)
                crits.append(c)
                preds.append(p)
                rec.cov('criterion_forms_generated', form)
            sel = [i for i in range(n) if all(p(r[i]) for p, r in zip(preds, ranges))]
            tag = ':nothing-selected' if not sel else ''
            Z = self.arr(zs, rnd)
            pairs = ','.join('%s,%s' % (self.arr(r, rnd), hx.strlit(c)) for r, c in zip(ranges, crits))
            wildtag = ':wildcard' if any(('*' in c or '?' in c) and isinstance(r[0], str) for r, c in zip(ranges, crits)) else ''
            checks = [('SUMIFS', 'SUMIFS(%s,%s)' % (Z, pairs), sum(Fr(zs[i]) for i in sel)),
                      ('MAXIFS', 'MAXIFS(%s,%s)' % (Z, pairs), max(Fr(zs[i]) for i in sel) if sel else Fr(0)),
                      ('AVERAGEIFS', 'AVERAGEIFS(%s,%s)' % (Z, pairs), (sum(Fr(zs[i]) for i in sel) / len(sel)) if sel else 'ERR')]
            # single-criterion functions on the first range
            r0, c0, p0 = ranges[0], crits[0], preds[0]
            s0 = [i for i in range(n) if p0(r0[i])]
            A = self.arr(r0, rnd)
            w0 = ':wildcard' if (('*' in c0 or '?' in c0) and isinstance(r0[0], str)) else ''
            t0 = ':nothing-selected' if not s0 else ''
            single = [('COUNTIF', 'COUNTIF(%s,%s)' % (A, hx.strlit(c0)), Fr(len(s0))),
                      ('AVERAGEIF', 'AVERAGEIF(%s,%s,%s)' % (A, hx.strlit(c0), self.arr(zs, rnd)), (sum(Fr(zs[i]) for i in s0) / len(s0)) if s0 else 'ERR')]
            if not isinstance(r0[0], str):
                single += [('SUMIF', 'SUMIF(%s,%s)' % (A, hx.strlit(c0)), sum(Fr(r0[i]) for i in s0)),
                           ('AVERAGEIF', 'AVERAGEIF(%s,%s)' % (A, hx.strlit(c0)), (sum(Fr(r0[i]) for i in s0) / len(s0)) if s0 else 'ERR')]
            for (fn, f, ref), tg, wt in [(c, tag, wildtag) for c in checks] + [(c, t0, w0) for c in single]:
                g = self.ev(f)
                rec.nt(f + repr([v for k, v in self.e.p.variables.items() if k.startswith(('v_', 'rg_')) and k in f]))
                if ref == 'ERR':
                    ok = self.is_err(g)
                else:
                    ok = finite(g) and close(g, ref)
                neg = ':all-negative' if (fn == 'MAXIFS' and ref != 'ERR' and ref < 0) else ''
                self.expect('C11/%s:differs-from-statistic-over-selected%s%s%s' % (fn, wt, tg, neg), ok, formula=f[:400], got=g, expected=ref if ref == 'ERR' else float(ref), selected=len(sel if fn.endswith('IFS') else s0))
                rec.cov('conditional', (fn, 'empty' if tg else 'nonempty', 'wild' if wt else 'plain'))
            rec.sample({'formula': checks[0][1][:200]})
            # a range of one cell may reach the function as the bare value (a host answering a 1x1 range with its content): the statistics over
            # "exactly the selected items" of a one-item range
            v1 = rnd.choice([rnd.randint(-9, 9), round(rnd.uniform(-20, 20), 1), 0])
            c1, p1, _ = self.criterion(rnd, [v1, v1 + 1, v1 - 1])
            sel1 = p1(v1)
            for fn, f, ref in (('SUMIF', 'SUMIF(v_one,%s)' % hx.strlit(c1), Fr(v1) if sel1 else Fr(0)), ('COUNTIF', 'COUNTIF(v_one,%s)' % hx.strlit(c1), Fr(1 if sel1 else 0))):
                g = self.ev(f, v_one=v1)
                self.expect('C11/%s:differs-from-statistic-over-selected:one-cell-range-given-as-its-value' % fn, finite(g) and close(g, ref), formula=f, value=v1, criterion=c1, got=g, expected=float(ref))
                rec.nt(('scalar-range', fn, v1, c1))

    # ------------------------------------------------------------------ error items
    def c_errors(self, spec, rec):
        rnd = self.rng(spec)
        objs = hx.error_objects()
        for _ in range(spec['n']):
            for code in CODES8:
                for fn in PROPAGATING:
                    n = rnd.randint(1, 6)
                    for pos in range(n):
                        xs = self.numbers(rnd, n)
                        how = rnd.choice(['hostlist', 'var', 'expr', 'nested'])
                        want = 'ERR:' + code
                        if how == 'hostlist':
                            items = list(xs)
                            items[pos] = objs[code]
                            f = '%s(v_list)' % fn
                            self.e.bind(v_list=items)
                        elif how == 'nested':
                            items = list(xs)
                            items[pos] = [objs[code]]
                            f = '%s(1,v_list)' % fn
                            self.e.bind(v_list=items)
                        else:
                            self.e.bind(v_err=objs[code])
                            src = 'v_err'
                            if how == 'expr' and code == '#DIV/0!':
                                src = '1/0'
                            elif how == 'expr' and code == '#N/A':
                                src = 'NA()'
                            parts = [L(x) for x in xs]
                            parts[pos] = src
                            f = '%s(%s)' % (fn, ','.join(parts))
                        g = self.ev(f)
                        self.expect('C11/%s:error-item-does-not-become-the-result' % fn, g == want, formula=f, got=g, expected=want, how=how)
                        rec.nt((fn, code, n, pos, how, f))
                        rec.cov('error_positions', (fn, min(pos, 3)))
        rec.sample({'formula': 'SUM(1,v_err,2)', 'v_err': '#N/A'})

    def c_sentinels(self, spec, rec):
        ev = self.ev
        g = ev('COUNTIF({"apple","pear"},"p*")')
        self.expect('C11/COUNTIF:differs-from-statistic-over-selected:wildcard', g == 1, formula='COUNTIF({"apple","pear"},"p*")', got=g)
        g = ev('MAXIFS({-1,-2,-3},{1,2,3},">1")')
        self.expect('C11/MAXIFS:differs-from-statistic-over-selected:all-negative', g == -2, formula='MAXIFS({-1,-2,-3},{1,2,3},">1")', got=g)
        g = ev('MAXIFS({-1,-2,-3},{1,2,3},">5")')
        self.expect('C11/MAXIFS:differs-from-statistic-over-selected:nothing-selected', g == 0, got=g)
        g = ev('SUMIF({1,54.6,3},"=54.6")')
        self.expect('C11/SUMIF:differs-from-statistic-over-selected', finite(g) and abs(g - 54.6) < 1e-9, got=g)
        g = ev('AVERAGEIFS({1,2},{1,2},">5")')
        self.expect('C11/AVERAGEIFS:differs-from-statistic-over-selected:nothing-selected', self.is_err(g), got=g)
        g = ev('SUM({1,2;3,4},{5,{6,7}},8)')
        self.expect('C11/SUM:differs-from-definition', g == 36, got=g)
        g = ev('SUM(1,1/0,2)')
        self.expect('C11/SUM:error-item-does-not-become-the-result', g == 'ERR:#DIV/0!', got=g)
        rec.nt('a')
        rec.nt('b')
