"""C20 - event emitter: ordered delivery, exact unsubscription, once means once.

History + executable model: seeded histories of on/once/off/emit (with callbacks that themselves
subscribe, unsubscribe and emit during delivery, to nesting depth 3) are driven on the real Emitter
(and on hotxlfp.Parser, its subclass) and on a 25-line reference model; call logs are compared after
every top-level operation and listener tables at the end.  The icontract class invariant and the
returns-self post-conditions of contracts.py are active on the real object during all of it.
"""
from ..runner import BaseCheck
from ..models.emitter import ModelEmitter
from .. import env

# names that are different names although some conversion (decoding, case folding, stripping, normalising) would identify them
NAMES = ['a', 'b', 'a.b', b'a', 'A', 'a ', '\u00e1', 'a\u0301', None, '', 0]      # None, '' and 0 are names like any other (a key of the listener table)
NCB = 8
MAX_DELIVERIES = 400


class Handler(object):
    """bound-method callbacks: every attribute access creates a new, equal, bound-method object"""

    def __init__(self, idx, world):
        self.idx, self.world = idx, world

    def handle(self, *args, **ctx):
        return self.world.deliver(self.idx, args, ctx)


class CallableObj(object):
    def __init__(self, idx, world):
        self.idx, self.world = idx, world

    def __call__(self, *args, **ctx):
        return self.world.deliver(self.idx, args, ctx)


class FalsyCallable(CallableObj):
    """a callback that is falsy (a callable collection that is empty, an object defining __bool__): a callback like any other"""

    def __len__(self):
        return 0


class Box(object):
    pass


class World(object):
    """One run of one history on one target (real or model).  Identical scripting logic for both."""

    def __init__(self, target, scripts, rec=None):
        self.t = target
        self.scripts = scripts
        self.log = []
        self.depth = 0
        self.deliveries = 0
        self.rec = rec
        # contexts that outlive the subscription: the listener is bound to the mapping itself, so what it receives is the
        # mapping's content at delivery time (two start empty, one does not)
        self.shared = [{}, {}, {'s': 0}]
        self.emitting = []
        self.cbs = []
        for i in range(NCB):
            kind = i % 4
            if kind == 0:
                def f(*args, _i=i, **ctx):
                    return self.deliver(_i, args, ctx)
                f.idx = i
                self.cbs.append(lambda f=f: f)
            elif kind == 1:
                g = (lambda *args, _i=i, **ctx: self.deliver(_i, args, ctx))
                g.idx = i
                self.cbs.append(lambda g=g: g)
            elif kind == 2:
                h = Handler(i, self)
                self.cbs.append(lambda h=h: h.handle)      # fresh bound method each time
            else:
                c = (FalsyCallable if i >= 4 else CallableObj)(i, self)
                self.cbs.append(lambda c=c: c)

    def cb(self, i):
        return self.cbs[i]()

    def ctx(self, spec):
        if spec is None:
            return None
        if spec and spec[0] == 'shared':
            return self.shared[spec[1]]
        return dict(spec)

    @staticmethod
    def mkarg(k):
        # emitted arguments are not only numbers: containers and plain objects are handed over as they are
        return [k] if k == 7 else ({'k': k} if k == 8 else (Box() if k == 9 else k))

    @staticmethod
    def snapshot(x):
        return ('list', tuple(x)) if isinstance(x, list) else (('dict', tuple(sorted(map(repr, x.items())))) if isinstance(x, dict) else ('box' if isinstance(x, Box) else x))

    def deliver(self, i, args, ctx):
        self.deliveries += 1
        self.returns = getattr(self, 'returns', None) or [False, None, 0, True, '', 'stop', self.t, StopIteration, NotImplemented, (), [False]]
        top = self.emitting[-1] if self.emitting else None
        # 'called with the emitted arguments': the very objects, so what one listener does to a container the next one finds
        same = top is not None and len(args) == len(top) and all(x is y for x, y in zip(args, top))
        self.log.append((i, tuple(self.snapshot(a) for a in args), tuple(sorted(ctx.items()))) + (() if same else ('not-the-emitted-objects',)))
        for a in args:
            if isinstance(a, list) and len(a) < 6:
                a.append(i)
            elif isinstance(a, dict) and len(a) < 6:
                a[i] = True
        if self.deliveries > MAX_DELIVERIES:
            return
        for act in self.scripts.get(i, ()):
            if self.depth < 3:
                self.apply(act, nested=True)
        return self.returns[(self.deliveries + i) % len(self.returns)]      # False, None, 0, the emitter itself ...: delivery goes on regardless

    def apply(self, act, nested=False):
        kind, name = act[0], act[1]
        self.depth += 1
        try:
            if self.rec is not None:
                self.rec.count('ops.%s%s' % (kind, '.nested%d' % (self.depth - 1) if nested else ''))
            if kind == 'on':
                r = self.t.on(name, self.cb(act[2]), self.ctx(act[3]))
            elif kind == 'once':
                r = self.t.once(name, self.cb(act[2]), self.ctx(act[3]))
            elif kind == 'ctx':
                # the host changes a context mapping it passed (or will pass) when subscribing; act = ('ctx', j, key, value)
                if act[3] is None:
                    self.shared[name].pop(act[2], None)
                else:
                    self.shared[name][act[2]] = act[3]
                r = self.t
            elif kind == 'off':
                r = self.t.off(name) if act[2] is None else self.t.off(name, self.cb(act[2]))
            else:
                objs = (name,) + tuple(self.mkarg(a) for a in act[2])
                self.emitting.append(objs)
                try:
                    r = self.t.emit(name, *objs)
                finally:
                    self.emitting.pop()
            return r
        finally:
            self.depth -= 1


def cb_index(fn):
    fn = getattr(fn, '_', fn)
    i = getattr(fn, 'idx', None)
    if i is None:
        i = fn.__self__.idx
    return i


def gen_history(rnd, maxlen):
    def ract(allow_emit=True):
        k = rnd.choice(['on', 'on', 'once', 'once', 'off', 'emit', 'emit', 'emit', 'ctx'] if allow_emit else ['on', 'once', 'off', 'off', 'ctx'])
        n = rnd.choice(NAMES)
        if k == 'ctx':
            return (k, rnd.randrange(3), rnd.choice(['k', 's', 'q']), rnd.choice([None, 1, 2, 'w']))
        if k in ('on', 'once'):
            return (k, n, rnd.randrange(NCB), rnd.choice([None, None, (('k', 1),), (('q', 2), ('z', 'w')), (), ('shared', 0), ('shared', 1), ('shared', 2)]))
        if k == 'off':
            return (k, n, rnd.choice([None] + list(range(NCB))))
        return (k, n, tuple(rnd.randrange(10) for _ in range(rnd.randint(0, 2))))
    scripts = {}
    for i in range(NCB):
        if rnd.random() < 0.45:
            scripts[i] = [ract(allow_emit=rnd.random() < 0.35) for _ in range(rnd.randint(1, 2))]
    hist = [ract() for _ in range(rnd.randint(1, maxlen))]
    return hist, scripts


class Check(BaseCheck):
    ID = 'C20'
    TITLE = 'Event emitter: ordered delivery, exact unsubscription, once means once'
    TECHNIQUE = 'history + executable reference model in lock-step; icontract class invariant on the real Emitter'
    RULE = ('case = one seeded history of 1-40 on/once/off/emit operations over 8 names (text, bytes, differing only in case / a trailing space / Unicode normal form) and 6 callbacks (functions, lambdas, '
            'bound methods, callable objects, duplicates; contexts omitted, empty, literal, or one of three host-held mappings that the '
            'history keeps changing after subscribing), callbacks scripted to on/once/off/emit during delivery to depth 3; '
            'non-trivial = at least one listener was delivered to and the history is not in the ambiguous class; distinct = distinct '
            '(history, scripts).')
    ASSUMPTIONS = ('"their bound context" is read as the mapping object passed when subscribing (as the code binds it): a listener receives that '
                   'mapping\'s content at delivery time',
                   'a once-listener served by a nested emit while still in an outer snapshot is left unspecified by the statement; '
                   'histories reaching that state are judged only up to that operation',
                   'callbacks that raise and callbacks carrying an attribute "_" are outside the statement')

    def plan(self, tier, seed):
        n, sh = (7000, 16) if tier == 'quick' else (150000, 32)
        specs = [{'campaign': 'sentinels'}]
        for i in range(sh):
            specs.append({'campaign': 'histories', 'n': n, 'seed': seed, 'i': i, 'maxlen': 40 if i % 2 else 12})
        return specs

    def run(self, spec, rec):
        env.load()
        from hotxlfp.tinyemitter import Emitter
        import hotxlfp
        if spec['campaign'] == 'sentinels':
            return self.sentinels(rec, Emitter)
        rnd = self.rng(spec)
        for j in range(spec['n']):
            hist, scripts = gen_history(rnd, spec['maxlen'])
            use_parser = (j % 50 == 7)
            if j % 50 == 23:
                self.one(rec, hist, scripts, lambda: hotxlfp.Parser(debug=True), 'parser-debug')
            else:
                self.one(rec, hist, scripts, hotxlfp.Parser if use_parser else Emitter, 'parser' if use_parser else 'emitter')

    def one(self, rec, hist, scripts, cls, tag):
        rec.case()
        # 1. model run: log boundaries and first ambiguous operation
        model = ModelEmitter()
        mw = World(model, scripts)
        mbounds, stop = [], len(hist)
        for k, act in enumerate(hist):
            mw.apply(act)
            if model.ambiguous or mw.deliveries > MAX_DELIVERIES:
                stop = k
                rec.count('histories_cut_ambiguous' if model.ambiguous else 'histories_cut_budget')
                break
            mbounds.append(len(mw.log))
        if stop < len(hist):
            # replay the judged prefix on a fresh model so that the final table is the prefix's table
            model = ModelEmitter()
            mw = World(model, scripts)
            mbounds = []
            for act in hist[:stop]:
                mw.apply(act)
                mbounds.append(len(mw.log))
        # 2. real run on the judged prefix
        real = cls()
        rw = World(real, scripts, rec)
        prev = 0
        for k, act in enumerate(hist[:stop]):
            try:
                r = rw.apply(act)
            except Exception as e:
                rec.violation('C20/operation-raised:' + act[0] + ':' + type(e).__name__, history=hist[:k + 1], scripts=scripts, target=tag, error=repr(e))
                return
            if r is not real:
                rec.violation('C20/method-does-not-return-self:' + act[0], history=hist[:k + 1], target=tag)
            got, exp = rw.log[prev:], mw.log[prev:mbounds[k]]
            if got != exp:
                rec.violation('C20/delivery-differs-from-model:' + self.classify(got, exp, act), history=hist[:k + 1], scripts=scripts, target=tag,
                              real=got[:8], model=exp[:8])
                return
            prev = mbounds[k]
        # 3. listener tables at the quiescent point
        rt = {}
        for n, lst in real._e.items():
            if lst:
                rt[n] = [(cb_index(l.fn), tuple(sorted(l.ctx.items())), hasattr(l.fn, '_')) for l in lst]
        mt = {n: [(cb_index(cb), tuple(sorted(ctx.items())), once) for cb, ctx, once in lst] for n, lst in model.table().items()}
        if rt != mt:
            rec.violation('C20/listener-table-differs-from-model', history=hist[:stop], scripts=scripts, target=tag, real=rt, model=mt)
            return
        if mw.log:
            rec.nt((hist[:stop], sorted(scripts.items())))
        rec.cov('target', tag)
        rec.count('deliveries', len(mw.log))
        rec.sample({'history': hist[:6], 'scripts': {str(k): v for k, v in scripts.items()}, 'deliveries': len(mw.log)}, k=6)

    @staticmethod
    def classify(got, exp, act):
        if len(got) > len(exp) and got[:len(exp)] == exp:
            return 'extra-calls'
        if len(got) < len(exp) and exp[:len(got)] == got:
            return 'missing-calls'
        if sorted(map(repr, got)) == sorted(map(repr, exp)):
            return 'order'
        if [g[0] for g in got] == [e[0] for e in exp]:
            return 'arguments-or-context'
        return 'different-listeners'

    def sentinels(self, rec, Emitter):
        """Pinned histories, one per mechanism named in the statement."""
        hs = [
            ([('on', 'a', 0, None), ('on', 'a', 1, None), ('emit', 'a', (1, 2))], {}),
            ([('once', 'a', 0, None), ('emit', 'a', ()), ('emit', 'a', ())], {}),
            ([('on', 'a', 0, None), ('once', 'a', 0, None), ('on', 'a', 1, None), ('off', 'a', 0), ('emit', 'a', ())], {}),
            ([('on', 'a', 0, None), ('on', 'a', 1, None), ('off', 'a', None), ('emit', 'a', ())], {}),
            ([('on', 'a', 0, None), ('on', 'a.b', 1, None), ('emit', 'a', ()), ('emit', 'a.b', ()), ('emit', 'b', ())], {}),
            ([('on', 'a', 0, None), ('on', 'a', 1, None), ('emit', 'a', ()), ('emit', 'a', ())], {0: [('off', 'a', 1)]}),
            ([('on', 'a', 0, None), ('emit', 'a', ()), ('emit', 'a', ())], {0: [('on', 'a', 1, None)]}),
            ([('on', 'a', 2, (('k', 1),)), ('off', 'a', 2), ('emit', 'a', (5,))], {}),
            ([('once', 'a', 2, None), ('once', 'a', 2, None), ('emit', 'a', ()), ('emit', 'a', ())], {}),
            ([('off', 'b', 3), ('off', 'b', None), ('emit', 'b', ())], {}),
            ([('on', 'a', 0, None), ('on', 'a', 1, None), ('on', 'a', 0, None), ('off', 'a', 1), ('emit', 'a', (7,))], {}),
            ([('on', 'a', 0, ('shared', 0)), ('ctx', 0, 'k', 1), ('emit', 'a', ()), ('ctx', 0, 'k', None), ('emit', 'a', ())], {}),
            ([('once', 'a', 1, ('shared', 1)), ('ctx', 1, 'q', 'w'), ('emit', 'a', ())], {}),
            ([('on', 'a', 0, None), ('on', 'a', 1, ('shared', 0)), ('emit', 'a', ())], {0: [('ctx', 0, 'k', 2)]}),
            ([('on', 'a', 0, None), ('on', 'a', 1, None), ('on', 'a', 2, None), ('emit', 'a', (7, 8, 9)), ('emit', 'a', (7,))], {}),
            ([('on', 'a', 0, None), ('emit', 'a', (7, 8))], {}),
        ]
        for hist, scripts in hs:
            self.one(rec, hist, scripts, Emitter, 'emitter')

    def judge(self, merged, tier):
        c = merged['counts']
        why = []
        if c.get('contract_evals.C20.invariant', 0) == 0:
            why.append('the Emitter class invariant was never evaluated')
        if c.get('deliveries', 0) == 0:
            why.append('no listener was ever delivered to')
        for k in ('ops.on.nested1', 'ops.off.nested1', 'ops.emit.nested1', 'ops.once.nested1'):
            if c.get(k, 0) == 0:
                why.append('no %s during delivery was exercised' % k)
        return why
