"""C03 - parser instances are isolated; evaluation is re-entrant and thread-independent.

Boundary recorder with solo outcomes computed first.  Interposition goes through the library's own hooks: at the j-th
host-callback invocation of an outer evaluation (custom function or one of the four listener kinds) a complete other
evaluation runs on (i) a pre-built other parser, (ii) a parser constructed inside the callback, (iii) the same parser;
depth 2 repeats this inside the interposed evaluation.  Threads: each thread owns a parser with its own bindings and
evaluates a shared seeded list while a sys.monitoring LINE callback injects sleep(0) between statements of ply/hotxlfp
code; overlap of evaluations and the number of injected yields are measured, not assumed.
"""
import itertools
import sys
import threading
import time

from ..runner import BaseCheck
from ..oracle import outcome
from ..gen import exprs as G
from .. import env, hx, probe
from . import c10 as C10, c08 as C08

TICK = itertools.count()


def bindings(tag):
    """distinct per-parser bindings so that cross-talk changes outcomes"""
    return {'foo': 5 + tag, 'tagv': 'p%d' % tag, 'lst': [tag, tag + 1, [tag + 2]], 'xa': 4 + tag, 'yb': -6 - tag, 'zed': 0.5 + tag, 'width': 12, 'rate_pct': 2.5,
            'n_items': 9 + tag, 'neg_half': -0.5, 'bar': 'txt%d' % tag, 'baz_q': 2.5 + tag}


class World(object):
    """one parser with callbacks that can interpose another evaluation at a chosen invocation"""

    def __init__(self, tag, check):
        hotxlfp = env.load()
        self.tag = tag
        self.check = check
        self.p = hotxlfp.Parser()
        self.count = 0
        self.plan = None          # {site index j: action} for the evaluation in progress
        self.depth = 0
        for n, v in bindings(tag).items():
            self.p.set_variable(n, v)
        self.p.set_variable('only_on_%d' % tag, 'secret%d' % tag)
        self.p.set_function('CF', self.site('fn', lambda *a: len(a) * 10 + tag))
        self.p.set_function('FA', self.site('fn', lambda *a: 'fa%d' % tag))
        self.p.set_function('FB', self.site('fn', lambda *a: tag))
        self.p.set_function('F.c', self.site('fn', lambda *a: None))
        self.p.set_function('ONLY%s' % 'ABCDEFGHIJKLMNOPQRSTUVWXYZ'[tag % 26], lambda *a: 'only')
        self.p.on('callCellValue', self.site('cell', lambda c, s: s((c.row.index % 97) * 10 + c.col.index % 7 + 1 + tag)))
        self.p.on('callRangeValue', self.site('range', lambda a, b, s: s([[1 + tag, 2], [3, 4]])))
        self.p.on('callVariable', self.site('var', lambda n, s: None))
        self.p.on('callFunction', self.site('fnevent', lambda n, a, s: None))

    def site(self, kind, default):
        def cb(*a):
            act = None
            if self.depth == 0 or self.plan_depth_ok():
                self.count += 1
                pl = self.plan
                if pl and self.count in pl:
                    act = pl.pop(self.count)
                    self.check.rec.cov('interposition_sites', (kind, self.check.current_mode, self.check.current_depth))
            if act is None:
                return default(*a)
            if self.check.setter_first:
                # the listener hands its value to the setter (or computes its result) BEFORE the interposed evaluation runs
                r = default(*a)
                self.interpose(act)
                return r
            self.interpose(act)
            return default(*a)
        return cb

    def plan_depth_ok(self):
        return True

    def interpose(self, act):
        """run the interposed evaluation - every third time from inside an exception handler of the host's (a cache miss, a failed lookup
        whose message happens to spell an error code): what the host is handling at that moment is none of the evaluation's business"""
        self.check.handlers = getattr(self.check, 'handlers', 0) + 1
        if self.check.handlers % 3:
            return act()
        try:
            raise (ValueError('#N/A') if self.check.handlers % 2 else LookupError('#REF!'))
        except (ValueError, LookupError):
            self.check.rec.count('interpositions_from_inside_an_exception_handler')
            return act()

    def run(self, f, plan=None):
        self.count = 0
        self.plan = plan
        self.depth += 1
        try:
            return outcome(self.p.parse(f))
        finally:
            self.depth -= 1
            self.plan = None


class Check(BaseCheck):
    ID = 'C03'
    TITLE = 'Parser instances are isolated; evaluation is re-entrant and thread-independent'
    TECHNIQUE = 'boundary recorder vs solo outcomes; interposition through custom functions and listeners; threads with sys.monitoring yield injection and measured overlap'
    RULE = ('case = (nested) one triple (outer formula f, callback invocation j of f, inner formula g) with g evaluated completely at that point on another pre-built parser, on a '
            'parser built inside the callback, or on the same parser, optionally with a third evaluation interposed inside g (depth 2); both outcomes are compared with their solo '
            'outcomes; (threads) one evaluation by one of 2-16 threads each owning a parser with its own bindings, under yield injection p in {0, 0.01, 0.2}, compared with its solo '
            'outcome; (bindings) one name registered on parser A evaluated on parser B. non-trivial = the interposition really happened / the evaluation overlapped another '
            'thread\'s evaluation / the name resolved on its own parser / (rendezvous) two threads were inside host callbacks of their own parsers at the same moment; distinct = distinct (f, j, g, mode) resp. (run, thread, index).')
    ASSUMPTIONS = ('concurrent use of ONE parser object from two threads is not claimed and not exercised',
                   'thread interleavings are sampled, not enumerated; a thread run in which fewer than 10% of the evaluations overlapped another thread\'s is inconclusive',
                   're-entrancy is exercised to nesting depth 2, as the statement says')
    SHARD_TIMEOUT = {'quick': 900, 'thorough': 7200}

    NO_AMBIENT = ('crowd', 'rendezvous', 'coldstart')      # need a process of their own kind (address space, a cold start)

    def plan(self, tier, seed):
        q = tier == 'quick'
        specs = [{'campaign': 'sentinels'}, {'campaign': 'bindings', 'seed': seed}]
        for i in range(16):
            specs.append({'campaign': 'nested', 'seed': seed, 'n': 90 if q else 2500, 'i': i})
        for i in range(16 if q else 48):
            specs.append({'campaign': 'threads', 'seed': seed, 'i': i, 'runs': 3 if q else 12, 'evals': 180 if q else 600})
        for i in range(6 if q else 24):
            specs.append({'campaign': 'coldstart', 'seed': seed, 'i': i, 'threads': [2, 4, 8][i % 3], 'p_yield': [0.02, 0.2, 0][i % 3] if i % 6 < 3 else 0.1, 'formulas': 300 if q else 1200})
        for i in range(4 if q else 8):
            specs.append({'campaign': 'disturbers', 'i': i, 'k': 4 if q else 8} if not q else {'campaign': 'disturbers', 'i': i * 6, 'k': 24})
        specs.append({'campaign': 'rendezvous', 'seed': seed, 'rounds': 4 if q else 40})
        specs.append({'campaign': 'crowd', 'seed': seed, 'sizes': [8, 100, 300] if q else [8, 70, 100, 300, 600], 'address_space_gb': 96})
        return specs

    def run(self, spec, rec):
        env.load()
        self.rec = rec
        self.current_mode = '-'
        self.current_depth = 0
        self.setter_first = False
        # an evaluation that changes a process-wide setting has influenced every other parser there is (census shared with C02)
        from . import c02 as C02
        before = C02.Check.process_settings()
        getattr(self, 'c_' + spec['campaign'])(spec, rec)
        after = C02.Check.process_settings()
        rec.count('process_settings_compared', len(before))
        for k in before:
            if before[k] != after[k] and k not in ('switchinterval', 'stack_size'):       # the thread campaigns set and restore these two themselves
                rec.violation('C03/evaluation-changed-a-process-wide-setting:' + k, setting=k, before=before[k], after=after[k], campaign=spec['campaign'])

    # ------------------------------------------------------------------ formulas
    def formulas(self, rnd, n):
        out = []
        g10 = C10.Gen(rnd)
        fixed = ['CF(A1,foo,B2:C3)+CF(1)', 'SUM(A1,B2)*foo', 'IFERROR(CF(A1),CF(2))', 'CF(CF(CF(1)))', '{A1,foo,CF(1)}', 'CF(A1:B2)&tagv', 'IF(A1>1,CF(1),CF(2))', 'foo', 'A1',
                 'A1:B2', 'CF()', 'MAX(CF(1),CF(2),CF(3))+A1', 'CONCATENATE(tagv,A1,CF("x"))', 'SUM(lst,CF(lst))', '1+2*3', 'xa*yb-zed', 'nosuch+A1', 'CF(1)+', 'SUM(1/0,A1)',
                 'IFERROR(A1/0,foo)', 'TEXTJOIN(",",TRUE,tagv,"c",A1)', 'INDEX(lst,2)+foo', 'ROMAN(foo+1990)', 'DATE(2020,1,foo)+A1', 'COUNTIF(B2:C3,">1")+foo', '"a"&foo&"b"&A1',
                 '(foo>A1)+(xa<=yb)+(zed<>1)+(tagv="p1")', 'IF(foo<A1,IF(xa>=yb,1,2),IF(zed=0.5,3,4))', '(A1<B2)&(B2<A1)&(foo=foo)&(tagv<"q")', 'AND(foo>1,A1>=2,xa<>yb)',
                 'LEFT("abc","x")&foo', 'CODE(1)+A1', 'MID(1,2,3)', 'SQRT(-1)+foo', 'CF(1)+CHAR(-1)',
                 'DATEVALUE("2021-06-01")+foo', 'YEAR("2020-02-29")&tagv', '"2020-03-01"+A1', 'DAYS("2021-03-01","2021-02-01")+foo', 'MONTH("5 May 2020")+xa', 'WEEKDAY("2020-02-29")&tagv',
                 '"2021-01-01">"2020-12-31"', 'HOUR("2020-02-29T13:45:10")+foo', 'DATEVALUE("March 2020")+A1', 'N("2020-07-01"+0)+foo',
                 'YEAR("1999-12-31 23:00 XYZ")+foo', 'HOUR("2020-01-01 10:00 EST")&tagv', 'DATEVALUE("2021-06-01 BST")+A1', 'MONTH("5 May 2020 12:00 QQQ")',
                 'MAX(A1,foo)-MIN(xa,yb)+ABS(zed)', 'INDEX(lst,1)&"|"&TEXTJOIN("-",TRUE,tagv,foo)', 'SUMIF(B2:C3,">"&foo)+COUNT(lst)', 'IFERROR(1/(foo-foo),tagv)&(xa>yb)']
        for _ in range(n):
            k = rnd.random()
            if k < 0.45:
                out.append(rnd.choice(fixed))
            elif k < 0.8:
                out.append(C10.render(g10.expr(rnd.randint(1, 3))).replace('NOW()', 'foo'))
            else:
                out.append(G.text(G.render(G.ExprGen(rnd, maxdepth=rnd.randint(1, 4)).tree(), 'min')))
        return out

    # ------------------------------------------------------------------ nested
    def c_nested(self, spec, rec):
        rnd = self.rng(spec)
        A, B, C = World(1, self), World(2, self), World(3, self)
        fs = self.formulas(rnd, spec['n'])
        for f in fs:
            soloA = A.run(f)
            nsites = A.count
            if nsites == 0:
                rec.count('outer_formulas_without_callback_site')
                continue
            g = rnd.choice(fs)
            h = rnd.choice(fs)
            for j in range(1, nsites + 1):
                for mode in ('other-parser', 'new-parser', 'same-parser'):
                    for depth in (1, 2):
                        if depth == 2 and rnd.random() < 0.6:
                            continue
                        self.one_nested(rec, A, B, C, f, g, h, j, mode, depth, soloA)
                # the interposed evaluation is cut short by one of its own callbacks raising: the outer one still ends as it does alone
                for mode in ('other-parser', 'new-parser', 'same-parser'):
                    self.one_nested(rec, A, B, C, f, g, h, j, mode, 1, soloA, abort=rnd.randint(1, 3))
            # several complete evaluations interposed, one after the other, inside ONE outer evaluation
            if nsites >= 2:
                for mode in ('other-parser', 'new-parser', 'same-parser', 'mixed'):
                    sites = sorted(rnd.sample(range(1, nsites + 1), rnd.randint(2, min(4, nsites))))
                    self.multi_nested(rec, A, B, f, [rnd.choice(fs) for _ in sites], sites, mode, soloA)
            rec.sample({'outer': f, 'callback_sites': nsites, 'inner': g}, k=6)

    def one_nested(self, rec, A, B, C, f, g, h, j, mode, depth, soloA, abort=None):
        inner = {}
        self.current_mode, self.current_depth = mode + (':inner-aborted' if abort else ''), depth

        def boom():
            raise RuntimeError('callback of the interposed evaluation fails')
        self.setter_first = (hash((f, j, mode, depth)) & 1) == 1
        rec.cov('setter_order', self.setter_first)

        def target():
            if mode == 'other-parser':
                return B
            if mode == 'new-parser':
                return World(2, self)
            return A

        def interpose():
            T = target()
            saved = (T.count, T.plan)
            plan2 = None
            if depth == 2:
                def third():
                    W = C if mode != 'same-parser' else A
                    s2 = (W.count, W.plan)
                    inner['h'] = W.run(h)
                    W.count, W.plan = s2
                plan2 = {1: third}
            if abort:
                plan2 = {abort: boom}
            inner['g'] = T.run(g, plan2)
            if T is A:
                T.count, T.plan = saved
        got = A.run(f, {j: interpose})
        rec.case()
        if 'g' not in inner:
            rec.count('interposition_not_reached')
            return
        rec.nt((f, j, g, mode, depth))
        tagA = 1
        solo_g = (A if mode == 'same-parser' else B).run(g, {abort: boom} if abort else None)
        if mode == 'new-parser':
            solo_g = World(2, self).run(g, {abort: boom} if abort else None)
        if abort:
            rec.count('interposed_evaluations_cut_short_by_their_own_callback', solo_g == ('err', '#ERROR!'))
        if got != soloA:
            rec.violation('C03/outer-evaluation-disturbed-by-nested-evaluation:' + mode, outer=f, site=j, inner=g, mode=mode, depth=depth, outer_outcome=got, solo=soloA)
        if inner['g'] != solo_g:
            rec.violation('C03/nested-evaluation-differs-from-solo:' + mode, outer=f, site=j, inner=g, mode=mode, depth=depth, inner_outcome=inner['g'], solo=solo_g)
        if depth == 2 and 'h' in inner:
            solo_h = (A if mode == 'same-parser' else C).run(h)
            if inner['h'] != solo_h:
                rec.violation('C03/depth-2-evaluation-differs-from-solo:' + mode, outer=f, inner=g, third=h, outcome=inner['h'], solo=solo_h)
            rec.count('depth2_interpositions')
        rec.count('interpositions')

    def multi_nested(self, rec, A, B, f, gs, sites, mode, soloA):
        inner = []
        self.current_mode, self.current_depth = 'multi:' + mode, 1
        self.setter_first = (hash((f, tuple(sites), mode)) & 1) == 1

        def mk(g, k):
            def act():
                m = mode if mode != 'mixed' else ('other-parser', 'same-parser', 'new-parser')[k % 3]
                T = B if m == 'other-parser' else (World(2, self) if m == 'new-parser' else A)
                saved = (T.count, T.plan)
                o = T.run(g)
                if T is A:
                    T.count, T.plan = saved
                inner.append((g, m, o))
            return act
        got = A.run(f, {j: mk(g, k) for k, (j, g) in enumerate(zip(sites, gs))})
        rec.case()
        if len(inner) < 2:
            rec.count('multi_interposition_not_reached')
            return
        rec.nt((f, tuple(sites), tuple(gs), mode))
        rec.count('multi_interpositions')
        if got != soloA:
            rec.violation('C03/outer-evaluation-disturbed-by-several-nested-evaluations:' + mode, outer=f, sites=sites, inner=gs, outer_outcome=got, solo=soloA)
        for g, m, o in inner:
            solo = (A if m == 'same-parser' else (B if m == 'other-parser' else World(2, self))).run(g)
            if o != solo:
                rec.violation('C03/nested-evaluation-differs-from-solo:several:' + m, outer=f, inner=g, outcome=o, solo=solo)

    # ------------------------------------------------------------------ bindings isolation
    def c_bindings(self, spec, rec):
        worlds = [World(t, self) for t in range(1, 6)]
        calls = {t: 0 for t in range(1, 6)}
        for w in worlds:
            w.p.on('callCellValue', lambda c, s, _t=w.tag: calls.__setitem__(_t, calls[_t] + 1))
        for a in worlds:
            own = a.run('only_on_%d' % a.tag)
            rec.case()
            if own != ('ok', ('str', 'secret%d' % a.tag)):
                rec.violation('C03/binding-not-visible-on-its-own-parser', parser=a.tag, outcome=own)
            for b in worlds:
                if a is b:
                    continue
                for f, what in (('only_on_%d' % a.tag, 'variable'), ('ONLY%s(1)' % 'ABCDEFGHIJKLMNOPQRSTUVWXYZ'[a.tag % 26], 'function')):
                    o = b.run(f)
                    rec.case()
                    rec.nt((a.tag, b.tag, what))
                    if o != ('err', '#NAME?'):
                        rec.violation('C03/%s-registered-on-one-parser-visible-on-another' % what, registered_on=a.tag, evaluated_on=b.tag, formula=f, outcome=o)
                before = dict(calls)
                b.run('A1+B2')
                rec.case()
                if calls[a.tag] != before[a.tag]:
                    rec.violation('C03/listener-registered-on-one-parser-called-by-another', registered_on=a.tag, evaluated_on=b.tag)
                o1, o2 = a.run('foo&tagv'), b.run('foo&tagv')
                if o1 == o2:
                    rec.violation('C03/parsers-share-variable-values', a=a.tag, b=b.tag, outcome=o1)
        # a variable whose NAME is shaped like a cell reference, registered on one parser, must not change what that spelling
        # means on another parser (there it is a cell, delivered by that parser's listener)
        hotxlfp = env.load()
        for nm in ('Q1', 'AB12', 'x9', 'tax2020', 'Z99'):
            A, B = hotxlfp.Parser(), hotxlfp.Parser()
            B.on('callCellValue', lambda c, s: s(c.row.index + 100))
            B.on('callRangeValue', lambda a, b, s: s([1, 2, 3]))
            before = (B.parse('%s*2' % nm), B.parse('SUM(%s:%s)' % (nm, nm)))
            A.set_variable(nm, 5)
            A.parse(nm)
            after = (B.parse('%s*2' % nm), B.parse('SUM(%s:%s)' % (nm, nm)))
            C = hotxlfp.Parser()
            C.on('callCellValue', lambda c, s: s(c.row.index + 100))
            C.on('callRangeValue', lambda a, b, s: s([1, 2, 3]))
            later = (C.parse('%s*2' % nm), C.parse('SUM(%s:%s)' % (nm, nm)))
            rec.case()
            rec.nt(('cellshaped', nm))
            if before != after or before != later:
                rec.violation('C03/cell-shaped-variable-name-on-one-parser-changes-another', name=nm, other_parser_before=before, other_parser_after=after, new_parser=later)
        # the SAME callable object subscribed on two parsers (a host wires one handler into every sheet's parser), through on() and
        # through once(), for every event kind: each parser's subscription lives and dies on its own
        for evname, f in (('callCellValue', 'A1+1'), ('callRangeValue', 'SUM(A1:B2)'), ('callVariable', 'zz_v'), ('callFunction', 'SUM(1,2)')):
            for how in ('once', 'on-then-off', 'once-then-off'):
                A, B = hotxlfp.Parser(), hotxlfp.Parser()
                seen = []

                def handler(*a):
                    seen.append(1)
                    if evname != 'callFunction':
                        a[-1](5)
                for P in (A, B):
                    (P.once if how.startswith('once') else P.on)(evname, handler)
                trace = []
                if how == 'once':
                    # first evaluation on each parser is answered by its own one-time listener, the second is not; whichever fires first
                    for P in (A, A, B, B):
                        n0 = len(seen)
                        P.parse(f)
                        trace.append(len(seen) - n0)
                    expect = [1, 0, 1, 0]
                elif how == 'on-then-off':
                    A.parse(f)
                    A.off(evname, handler)
                    for P in (A, B, B):
                        n0 = len(seen)
                        P.parse(f)
                        trace.append(len(seen) - n0)
                    expect = [0, 1, 1]
                else:
                    A.off(evname, handler)
                    for P in (A, B, B):
                        n0 = len(seen)
                        P.parse(f)
                        trace.append(len(seen) - n0)
                    expect = [0, 1, 0]
                rec.case()
                rec.nt(('shared-handler', evname, how))
                if trace != expect:
                    rec.violation('C03/subscription-of-a-shared-handler-on-one-parser-affects-another', event=evname, how=how, calls_per_evaluation=trace, expected=expect)
        # a listener that edits the argument list it is shown (appends, clears, inserts) edits ITS call's arguments only: the next call
        # on that parser starts clean, and no other parser ever notices
        import math
        for edit in ('append', 'insert', 'clear-then-append', 'extend'):
            A, B = hotxlfp.Parser(), hotxlfp.Parser()

            def meddle(name, args, setter, _edit=edit):
                if _edit == 'append':
                    args.append(99)
                elif _edit == 'insert':
                    args.insert(0, 'junk')
                elif _edit == 'extend':
                    args.extend([1, 2, 3])
                else:
                    del args[:]
                    args.append(None)
            solo_b = [outcome(B.parse(f)) for f in ('PI()', 'TRUE()', 'NA()', 'SUM(1,2)', 'PI()+1')]
            A.on('callFunction', meddle)
            first = [outcome(A.parse(f)) for f in ('PI()', 'TRUE()', 'SUM(1,2)')]
            A.off('callFunction')
            after_a = [outcome(A.parse(f)) for f in ('PI()', 'TRUE()', 'NA()', 'SUM(1,2)', 'PI()+1')]
            after_b = [outcome(B.parse(f)) for f in ('PI()', 'TRUE()', 'NA()', 'SUM(1,2)', 'PI()+1')]
            C = hotxlfp.Parser()
            fresh = [outcome(C.parse(f)) for f in ('PI()', 'TRUE()', 'NA()', 'SUM(1,2)', 'PI()+1')]
            rec.case()
            rec.nt(('meddling-listener', edit))
            if after_b != solo_b or fresh != solo_b or after_a != solo_b:
                rec.violation('C03/argument-list-edited-by-one-call\'s-listener-reaches-other-calls', edit=edit, other_parser_before=solo_b, other_parser_after=after_b, new_parser=fresh,
                              same_parser_later=after_a, while_meddling=first)
        # a custom function registered under a built-in name on ONE parser: that parser gets its own function, every other
        # parser keeps the built-in, in whatever order they are used (sequentially and nested)
        hotxlfp = env.load()
        for name, args, builtin_value in (('MAX', '1,2', 2), ('MIN', '1,2', 1), ('SUM', '1,2', 3), ('ABS', '-3', 3), ('LEN', '"ab"', 2), ('PI', '', None)):
            for first in ('builtin-first', 'custom-first', 'nested'):
                A, B = hotxlfp.Parser(), hotxlfp.Parser()
                f = '%s(%s)' % (name, args)
                B.set_function(name, lambda *a, _n=name: 'mine:' + _n)
                if first == 'builtin-first':
                    ra, rb, ra2 = A.parse(f), B.parse(f), A.parse(f)
                elif first == 'custom-first':
                    rb, ra, ra2 = B.parse(f), A.parse(f), A.parse(f)
                    rb = B.parse(f)
                else:
                    got = {}
                    B.set_function('VIA', lambda *a: got.setdefault('a', A.parse(f)) and 0)
                    rb = B.parse('(VIA()+0)&%s' % f)
                    ra = got.get('a')
                    ra2 = A.parse(f)
                    rb = {'result': rb['result'][1:] if isinstance(rb['result'], str) else rb['result'], 'error': rb['error']}
                rec.case()
                rec.nt(('shadow', name, first))
                okb = rb == {'result': 'mine:' + name, 'error': None}
                oka = all(r is not None and r['error'] is None and (builtin_value is None or r['result'] == builtin_value) and r['result'] != 'mine:' + name for r in (ra, ra2))
                if not okb:
                    rec.violation('C03/custom-function-under-built-in-name-lost:' + first, name=name, order=first, own_parser=rb)
                if not oka:
                    rec.violation('C03/custom-function-of-one-parser-used-by-another:' + first, name=name, order=first, other_parser=[ra, ra2])
        rec.sample({'parsers': 5, 'formula': 'only_on_1 evaluated on parser 2'})

    # ------------------------------------------------------------------ threads
    def c_threads(self, spec, rec):
        rnd = self.rng(spec)
        old_switch = sys.getswitchinterval()
        sys.setswitchinterval(1e-6)
        try:
            for run in range(spec['runs']):
                nthreads = rnd.choice([2, 3, 4, 8, 16])
                p_yield = rnd.choice([0, 0.01, 0.2])
                fs = self.formulas(rnd, 40)
                build_inside = rnd.random() < 0.3
                # solo outcomes on fresh parsers, main thread, nothing else running
                solo = {}
                for t in range(nthreads):
                    w = World(t + 1, self)
                    solo[t] = [w.run(f) for f in fs]
                inj = probe.YieldInjector(p_yield, '%s:%d' % (spec['seed'], run)) if p_yield else None
                results = {}
                worlds = {} if build_inside else {t: World(t + 1, self) for t in range(nthreads)}
                start = threading.Barrier(nthreads)
                nev = max(20, spec['evals'] // nthreads)

                def work(t):
                    import random
                    r = random.Random('%s:%d:%d' % (spec['seed'], run, t))
                    if inj is not None:
                        inj.enroll(t)
                    start.wait()
                    w = worlds.get(t) or World(t + 1, self)
                    out = []
                    for _ in range(nev):
                        i = r.randrange(len(fs))
                        t0 = next(TICK)
                        o = outcome(w.p.parse(fs[i]))
                        t1 = next(TICK)
                        out.append((i, o, t0, t1))
                    results[t] = (out, getattr(inj.local, 'n', 0) if inj is not None else 0)
                if inj is not None:
                    inj.start()
                try:
                    ths = [threading.Thread(target=work, args=(t,)) for t in range(nthreads)]
                    for th in ths:
                        th.start()
                    for th in ths:
                        th.join(600)
                finally:
                    if inj is not None:
                        inj.stop()
                if len(results) != nthreads:
                    rec.inconcl('a worker thread did not finish')
                    continue
                # verdicts + measured overlap
                intervals = sorted((t0, t1, t) for t, (out, _) in results.items() for (_, _, t0, t1) in out)
                overl = 0
                total = 0
                ends = []
                for t, (out, nin) in results.items():
                    rec.count('yields_injected', nin)
                    for k, (i, o, t0, t1) in enumerate(out):
                        total += 1
                        rec.case()
                        if o != solo[t][i]:
                            rec.violation('C03/evaluation-in-thread-differs-from-solo', formula=fs[i], thread=t, threads=nthreads, yield_probability=p_yield, outcome=o, solo=solo[t][i])
                        if t1 - t0 > 1:       # another thread drew a tick inside this evaluation: measured overlap
                            overl += 1
                            rec.nt((spec['i'], run, t, k))
                rec.count('thread_evaluations', total)
                rec.count('thread_evaluations_overlapping', overl)
                rec.count('thread_runs')
                rec.cov('thread_run_shapes', (nthreads, p_yield, build_inside))
                sig = hash(tuple(t for _, _, t in intervals)) & 0xffffffff
                rec.cov('interleaving_signatures', sig)
                if total and overl < total * 0.1:
                    rec.count('thread_runs_with_low_overlap')
                rec.sample({'threads': nthreads, 'yield_probability': p_yield, 'evaluations': total, 'overlapping': overl}, k=6)
        finally:
            sys.setswitchinterval(old_switch)

    # ------------------------------------------------------------------ two parsers inside host callbacks at the same time
    HOOKS = {
        'function': ('HOSTF(1)+1', lambda p, rv: p.set_function('HOSTF', lambda *a: (rv(), 7)[1])),
        'cell': ('A1+1', lambda p, rv: p.on('callCellValue', lambda c, s: (rv(), s(7)))),
        'range': ('SUM(A1:B2)+1', lambda p, rv: p.on('callRangeValue', lambda a, b, s: (rv(), s([[3, 4]])))),
        'variable': ('zz_v+1', lambda p, rv: p.on('callVariable', lambda n, s: (rv(), s(7)))),
        'function-event': ('SUM(3,4)+1', lambda p, rv: p.on('callFunction', lambda n, a, s: rv())),
    }

    def c_rendezvous(self, spec, rec):
        """"Under any interleaving" includes the one in which two threads are inside host callbacks of their own parsers at the same
        moment.  Each callback announces itself and waits for the other.  The verdict is not a wall-clock deadline: it is the observation
        that, while one thread sits in its callback, the other one is alive, has not reached its callback, and its innermost frame does
        not move over 40 consecutive samples (blocked); a thread that is merely slow keeps moving and makes the round inconclusive."""
        hotxlfp = env.load()
        kinds = sorted(self.HOOKS)
        for rnd_i in range(spec['rounds']):
            for ka in kinds:
                for kb in kinds:
                    inside = {0: threading.Event(), 1: threading.Event()}
                    release = threading.Event()
                    met = {}
                    out = {}

                    def make(me, other):
                        def rv():
                            inside[me].set()
                            met[me] = inside[other].wait(90) or release.is_set()
                        return rv
                    ps = {}
                    for me, k in ((0, ka), (1, kb)):
                        ps[me] = hotxlfp.Parser()
                        self.HOOKS[k][1](ps[me], make(me, 1 - me))

                    def work(me, k):
                        out[me] = outcome(ps[me].parse(self.HOOKS[k][0]))
                    ths = {0: threading.Thread(target=work, args=(0, ka), daemon=True), 1: threading.Thread(target=work, args=(1, kb), daemon=True)}
                    for th in ths.values():
                        th.start()
                    verdict, still, last = None, 0, None
                    t_end = time.time() + 60
                    while time.time() < t_end:
                        if inside[0].is_set() and inside[1].is_set():
                            verdict = 'met'
                            break
                        one = 0 if inside[0].is_set() else (1 if inside[1].is_set() else None)
                        if one is not None:
                            th = ths[1 - one]
                            fr = sys._current_frames().get(th.ident)
                            sig = (fr.f_code.co_filename, fr.f_lineno, fr.f_lasti) if fr is not None else None
                            if th.is_alive() and sig is not None and sig == last:
                                still += 1
                            else:
                                still = 0
                            last = sig
                            if still >= 40:
                                verdict = 'blocked'
                                where = '%s:%d' % (sig[0].split('/')[-1], sig[1])
                                break
                        time.sleep(0.1)
                    release.set()
                    inside[0].set()
                    inside[1].set()
                    for th in ths.values():
                        th.join(30)
                    rec.case()
                    rec.cov('rendezvous_hook_pairs', (ka, kb))
                    if verdict == 'met':
                        rec.count('rendezvous_met')
                        rec.nt(('rendezvous', rnd_i, ka, kb))
                        for me in (0, 1):
                            if out.get(me) != ('ok', ('int', 8)):
                                rec.violation('C03/evaluation-in-thread-differs-from-solo:inside-callbacks-together', hooks=(ka, kb), thread=me, outcome=out.get(me))
                    elif verdict == 'blocked':
                        rec.violation('C03/evaluation-blocked-while-another-parser-is-inside-a-host-callback', hooks=(ka, kb), blocked_at=where,
                                      note='thread alive, callback not reached, innermost frame unchanged over 40 samples (4 s) while the other thread waited in its callback')
                        return
                    else:
                        rec.inconcl('rendezvous of two callbacks (%s, %s) did not happen within 60 s and the other thread kept moving' % (ka, kb))

    def c_coldstart(self, spec, rec):
        """The FIRST use of everything, concurrently.  The other thread campaigns compute solo outcomes first, which also warms every lazily
        built table and cache of the process; here a fresh worker process starts its threads at once - each builds its own parser and
        evaluates the same list (every deterministic function, the fixed probes) in the same order under yield injection, so that first uses
        collide - and the solo outcomes are computed afterwards."""
        hotxlfp = env.load()
        from . import c02 as C02
        import random, re
        fs = [f for f in C02.Check().order_formulas(spec['seed'], 4) if len(f) < 120 and re.match(r'[A-Z][A-Z0-9.]*\(', f)]
        random.Random('cold:%s:%s' % (spec['seed'], spec['i'])).shuffle(fs)
        fs = fs[:spec['formulas']] + ['ROMAN(1999)', 'ROMAN(499,1)', 'ROMAN(45,2)', 'ROMAN(999,3)', 'ROMAN(3999,4)', 'ARABIC("MCMXC")', 'BASE(255,16)', 'DEC2HEX(255)', 'DECIMAL("FF",16)',
                                       'DATE(2020,2,29)+1', 'EDATE(DATE(2020,1,31),1)', 'WEEKDAY(DATE(2020,1,1))', 'TEXTJOIN(",",TRUE,"a","b")', 'SUBSTITUTE("banana","an","x",2)',
                                       'MATCH("b*",{"ab","bc"},0)', 'COUNTIF({1,2,3},">1")', 'SUMIFS({1,2,3},{1,2,3},">1")', 'INDEX({1,2;3,4},2,1)', 'LARGE({3,1,2},2)', 'PV(0.05,10,-100)',
                                       'A1+B2', 'SUM(A1:B2)', 'foo', '1<2', '"a"&1', '-{1,2}', '{1,2}+{3,4}', '1/0', 'nosuch', 'NOSUCH(1)', '#N/A', '12%', '2^10']
        random.Random('cold2:%s:%s' % (spec['seed'], spec['i'])).shuffle(fs)
        nthreads = spec['threads']
        inj = probe.YieldInjector(spec['p_yield'], 'cold:%s:%s' % (spec['seed'], spec['i'])) if spec['p_yield'] else None
        results, start = {}, threading.Barrier(nthreads)
        step = threading.Barrier(nthreads)
        old_switch = sys.getswitchinterval()
        sys.setswitchinterval(1e-6)

        def work(t):
            if inj is not None:
                inj.enroll(t)
            start.wait()
            p = hotxlfp.Parser()
            out = []
            for f in fs:
                try:
                    step.wait(60)          # lockstep: every thread makes the process's first call of this function at the same moment
                except threading.BrokenBarrierError:
                    pass
                out.append(outcome(p.parse(f)))
            results[t] = out
        try:
            if inj is not None:
                inj.start()
            try:
                ths = [threading.Thread(target=work, args=(t,)) for t in range(nthreads)]
                for th in ths:
                    th.start()
                for th in ths:
                    th.join(900)
            finally:
                if inj is not None:
                    inj.stop()
        finally:
            sys.setswitchinterval(old_switch)
        if len(results) != nthreads:
            rec.inconcl('a cold-start thread did not finish')
            return
        solo_p = hotxlfp.Parser()
        solo = [outcome(solo_p.parse(f)) for f in fs]
        for t in range(nthreads):
            for i, f in enumerate(fs):
                rec.case()
                if results[t][i] != solo[i]:
                    rec.violation('C03/evaluation-in-thread-differs-from-solo:first-use-in-the-process', formula=f, thread=t, threads=nthreads, outcome=results[t][i], solo=solo[i],
                                  position_in_list=i)
        rec.nt(('coldstart', spec['i']))
        rec.count('coldstart_evaluations', nthreads * len(fs))
        rec.count('coldstart_runs')

    def c_crowd(self, spec, rec):
        """Many evaluations in flight at the same moment: N threads, each with its own parser, all held inside a host callback until every
        one of them has arrived (or has come back from parse() without ever reaching its callback); a third of them evaluate a second
        formula on yet another parser from inside the callback.  Every outcome must be the solo outcome."""
        hotxlfp = env.load()
        for N in spec['sizes']:
            lock = threading.Lock()
            arrived = [0]
            everyone = threading.Event()
            out, entered = {}, set()

            def arrive():
                with lock:
                    arrived[0] += 1
                    if arrived[0] >= N:
                        everyone.set()

            def work(t):
                p = hotxlfp.Parser()
                p.set_variable('mine', t)

                def hold(x):
                    entered.add(t)
                    inner = None
                    if t % 3 == 0:
                        q = hotxlfp.Parser()
                        q.set_function('HOLD2', lambda: (arrive(), everyone.wait(120), 5)[2])
                        inner = outcome(q.parse('HOLD2()+1'))
                    else:
                        arrive()
                        everyone.wait(120)
                    out[('inner', t)] = inner
                    return x * 2
                p.set_function('HOLD', hold)
                try:
                    out[t] = outcome(p.parse('HOLD(mine)+mine'))
                finally:
                    if t not in entered:
                        arrive()
            old_stack = threading.stack_size(1 << 20)       # the worker's address-space limit would not take hundreds of 8 MB stacks
            try:
                ths = [threading.Thread(target=work, args=(t,), daemon=True) for t in range(N)]
                for th in ths:
                    th.start()
            finally:
                threading.stack_size(old_stack)
            for th in ths:
                th.join(180)
            rec.count('crowd_runs')
            rec.cov('crowd_sizes', N)
            if not everyone.is_set() or any(th.is_alive() for th in ths):
                rec.inconcl('crowd of %d threads did not assemble inside their callbacks (%d arrived)' % (N, arrived[0]))
                everyone.set()
                continue
            for t in range(N):
                rec.case()
                exp = ('ok', ('int', 3 * t))
                if out.get(t) != exp:
                    rec.violation('C03/evaluation-in-thread-differs-from-solo:many-evaluations-in-flight', threads=N, thread=t, outcome=out.get(t), solo=exp, in_flight='%d evaluations held in callbacks' % len(entered))
                if t % 3 == 0 and t in entered and out.get(('inner', t)) != ('ok', ('int', 6)):
                    rec.violation('C03/evaluation-in-thread-differs-from-solo:many-evaluations-in-flight', threads=N, thread=t, nested=True, outcome=out.get(('inner', t)), solo=('ok', ('int', 6)))
                rec.nt(('crowd', N, t))
            rec.count('crowd_evaluations_in_flight_together', len(entered))

    # ------------------------------------------------------------------ sentinels
    # ------------------------------------------------------------------ what one parser evaluates is no other parser's history
    def c_disturbers(self, spec, rec):
        """Parser B (and a parser made for the occasion, and a thread) evaluates every supported function on arguments at the
        interpreter's and the library's limits; after each, a fixed set of probes on parser A - built and first evaluated before any
        of that - must still yield what it yielded alone.  The channel may be anything process-wide: an interpreter setting, a module
        attribute, a cache, a class attribute."""
        import threading
        hotxlfp = env.load()
        from hotxlfp import formulas
        A, B = World(1, self), World(2, self)
        probes = ['CF(1)&FACT(1800)', 'FACT(1800)&""', 'LEN(FACT(1500))', '10^400&""', 'CONCATENATE(FACT(1700),"x")', 'TEXTJOIN(",",TRUE,FACT(1600))', 'foo&2^5000', 'FACT(1559)&""',
                  'SUM(A1,B2)*foo', 'ROMAN(foo+1990)', 'DATE(2020,1,foo)+A1', 'COUNTIF(B2:C3,">1")+foo', '1/0', 'nosuch', 'CF(A1:B2)&tagv', '0.1+0.2', 'ROUND(2.675,2)', 'TEXT(1234.5,"0.00")',
                  'DATEVALUE("2020-03-01")', 'UPPER("straße")', 'LEFT("abc",2)&RIGHT("abc",1)', '{1,2}+{3,4}', 'MATCH("b*",{"ab","bc"},0)', 'SUMIF({1,2,3},">1")', '"1"+"2"', 'TRUE+1', '12345678901234567890+1']
        solo = [A.run(f) for f in probes]
        args = ['FACT(2000)', 'FACT(5000)', '10^4400', '-10^4400', '2^40000', '"' + 'x' * 5000 + '"', '1E+308', '1E-320', 'lst', 'A1:B2', '""', 'NULL', 'TRUE', '"#N/A"', '1/0', 'tagv', '-1', '0', '2.5',
                '{1,2,3}', 'DATE(9999,12,31)', '"2020-02-30"', 'REPT("ab",3000)', '123456789012345678901234567890']
        names = formulas.supported()[spec['i']::spec['k']]
        # work without bound on the unchanged tree (DESIGN 4: a count of 10^4400 is looped over or raised to): these cannot disturb anybody
        # before the wall watchdog ends the shard, so they are left out by name and counted
        unbounded = {('FACTDOUBLE', '%s(%s)'), ('FACTDOUBLE', '%s(%s,2)'), ('ROUND', '%s(1,%s)'), ('ROUNDUP', '%s(1,%s)'), ('ROUNDDOWN', '%s(1,%s)')}
        huge = {'FACT(2000)', 'FACT(5000)', '10^4400', '-10^4400', '2^40000', '123456789012345678901234567890'}
        n = 0
        for fn in names:
            for k, a in enumerate(args):
                for shape in ('%s(%s)', '%s(%s,2)', '%s(1,%s)'):
                    if a in huge and (fn, shape) in unbounded:
                        rec.count('disturbers_left_out_for_unbounded_work')
                        continue
                    g = shape % (fn, a)
                    who = (n % 5)
                    if who < 3:
                        B.run(g)
                    elif who == 3:
                        World(2, self).run(g)
                    else:
                        t = threading.Thread(target=lambda: B.run(g))
                        t.start()
                        t.join()
                    n += 1
                    rec.case()
                    if n % 7 and k:
                        continue
                    for f, want in zip(probes, solo):
                        got = A.run(f)
                        rec.case()
                        if got != want:
                            rec.violation('C03/evaluation-on-another-parser-changes-a-later-outcome', probe=f, alone=want, now=got, after_other_parser_evaluated=g[:200])
                            solo[probes.index(f)] = got      # report a change once
                    rec.nt(('disturber', g[:80]))
        rec.count('disturbing_evaluations', n)
        rec.sample({'probe': probes[0], 'after': 'LEN(FACT(2000)) evaluated on another parser', 'what': 'what one parser evaluates is no other parser\'s history'})

    def c_sentinels(self, spec, rec):
        hotxlfp = env.load()
        B = hotxlfp.Parser()
        A = hotxlfp.Parser()
        A.set_function('INNER', lambda x: B.parse('10*2')['result'] + x)
        A.set_function('SELF', lambda x: A.parse('3*7')['result'] + x)
        A.set_function('NEWP', lambda x: hotxlfp.Parser().parse('"n"&"p"')['result'])
        for f, exp in (('INNER(1)+5', 26), ('5+INNER(1)', 26), ('SELF(1)+5+SELF(2)', 50), ('NEWP(1)&"!"', 'np!'), ('SUM(INNER(1),SELF(1),2)*2', 90), ('INNER(INNER(1))', 41),
                       ('SELF(0)+SELF(0)+5', 47), ('SUM(SELF(0),SELF(0),5)', 47), ('SELF(0)&"-"&SELF(0)&"-end"', '21-21-end'), ('INNER(0)+SELF(0)+INNER(0)+1', 62)):
            r = A.parse(f)
            rec.case()
            rec.nt(f)
            if r != {'result': exp, 'error': None}:
                rec.violation('C03/outer-evaluation-disturbed-by-nested-evaluation:sentinel', formula=f, record=r, expected=exp)
        rec.sample({'formula': 'INNER(1)+5', 'INNER': 'evaluates 10*2 on another parser'})

    def judge(self, merged, tier):
        why = []
        c = merged['counts']
        if c.get('interpositions', 0) < 200:
            why.append('fewer than 200 interpositions happened')
        if c.get('multi_interpositions', 0) < 50:
            why.append('fewer than 50 evaluations with several interposed evaluations')
        if c.get('depth2_interpositions', 0) < 20:
            why.append('fewer than 20 depth-2 interpositions happened')
        kinds = set(k for k, _, _ in merged['cover'].get('interposition_sites', ()))
        if not {'fn', 'cell', 'range', 'var', 'fnevent'} <= kinds:
            why.append('interposition did not go through every hook kind: %s' % sorted(kinds))
        if c.get('rendezvous_met', 0) == 0 and not any(k.startswith('C03/evaluation-blocked') for k in merged['viol_counts']):
            why.append('no two host callbacks of different parsers were ever inside at the same time')
        tot, ov = c.get('thread_evaluations', 0), c.get('thread_evaluations_overlapping', 0)
        if tot == 0 or ov < 0.1 * tot:
            why.append('only %d of %d thread evaluations overlapped another thread\'s evaluation' % (ov, tot))
        return why

    def extra(self, merged):
        c = merged['counts']
        return {'overlapping_evaluations': c.get('thread_evaluations_overlapping', 0), 'thread_evaluations': c.get('thread_evaluations', 0),
                'in_parse_yields_injected': c.get('yields_injected', 0), 'distinct_interleaving_signatures': len(merged['cover'].get('interleaving_signatures', ()))}
