"""Shared scaffolding for function-level checks that drive formulas through Parser.parse."""
import signal

from ..runner import BaseCheck, WatchdogTimeout
from .. import env, hx, probe

CASE_WALL_SECONDS = 6.0      # CPU seconds of this (single-threaded) worker: ITIMER_VIRTUAL, immune to a loaded machine


class FormulaCheck(BaseCheck):
    """run() dispatches to c_<campaign>(spec, rec) with self.e (hx.Env) and self.rec ready.

    Every parse runs under a cheap CPU-time guard (ITIMER_VIRTUAL: user CPU time of this single-threaded worker, so a
    starved process on a loaded machine cannot trip it).  When the guard fires the same formula is re-run under the
    deterministic step counter: exceeding the step budget there is a *violation* (a call that does not terminate);
    staying inside it is only *inconclusive* (a slow machine or a long C-level operation)."""

    def run(self, spec, rec):
        env.load()
        self.e = hx.Env()
        self.rec = rec
        self.prepare(spec, rec)
        getattr(self, 'c_' + spec['campaign'])(spec, rec)

    def prepare(self, spec, rec):
        pass

    # ---- guarded evaluation
    def _alarm(self, *a):
        raise WatchdogTimeout('case wall guard')

    def parse(self, f):
        old = signal.signal(signal.SIGVTALRM, self._alarm)
        signal.setitimer(signal.ITIMER_VIRTUAL, CASE_WALL_SECONDS)
        try:
            return self.e.p.parse(f)
        except WatchdogTimeout:
            signal.setitimer(signal.ITIMER_VIRTUAL, 0)
            return self._decide_nontermination(f)
        finally:
            signal.setitimer(signal.ITIMER_VIRTUAL, 0)
            signal.signal(signal.SIGVTALRM, old)

    def _decide_nontermination(self, f):
        sc = probe.StepCounter()
        sc.start()
        try:
            budget = probe.budget_for(f, 50)
            signal.signal(signal.SIGVTALRM, self._alarm)
            signal.setitimer(signal.ITIMER_VIRTUAL, 60)
            try:
                r, steps, exceeded = sc.run(lambda: self.e.p.parse(f), budget)
            except WatchdogTimeout:
                r, steps, exceeded = None, sc.steps, None
            finally:
                signal.setitimer(signal.ITIMER_VIRTUAL, 0)
        finally:
            sc.stop()
        fn = f.split('(')[0][:20]
        if exceeded is not None:
            vars_ = {k: v for k, v in self.e.p.variables.items() if k.startswith(('v_', 'it_'))}
            self.rec.violation('%s/call-does-not-terminate:%s' % (self.ID, fn), formula=f, steps=steps, budget=budget, where=exceeded.where, variables=vars_)
        else:
            self.rec.inconcl('wall guard fired on %r but the step budget was not exceeded (%s line events)' % (f[:120], steps))
        return r if r is not None else {'result': None, 'error': '#HXMON-ABORTED'}

    def ev(self, f, **vars):
        if vars:
            self.e.bind(**vars)
        r = self.parse(f)
        return r['result'] if r['error'] is None else 'ERR:' + str(r['error'])

    def raw(self, f, **vars):
        if vars:
            self.e.bind(**vars)
        return self.parse(f)

    @staticmethod
    def is_err(v, code=None):
        return isinstance(v, str) and v.startswith('ERR:') and (code is None or v == 'ERR:' + code)

    def expect(self, key, ok, **witness):
        """count one judged case; record a violation under `key` when not ok"""
        self.rec.case()
        if not ok:
            self.rec.violation(key, **witness)
        return ok
