"""Shared scaffolding for function-level checks that drive formulas through Parser.parse."""
from ..runner import BaseCheck
from .. import env, hx


class FormulaCheck(BaseCheck):
    """run() dispatches to c_<campaign>(spec, rec) with self.e (hx.Env) and self.rec ready."""

    def run(self, spec, rec):
        env.load()
        self.e = hx.Env()
        self.rec = rec
        self.prepare(spec, rec)
        getattr(self, 'c_' + spec['campaign'])(spec, rec)

    def prepare(self, spec, rec):
        pass

    def ev(self, f, **vars):
        return self.e.val(f, **vars)

    @staticmethod
    def is_err(v, code=None):
        return isinstance(v, str) and v.startswith('ERR:') and (code is None or v == 'ERR:' + code)

    def expect(self, key, ok, **witness):
        """count one judged case; record a violation under `key` when not ok"""
        self.rec.case()
        if not ok:
            self.rec.violation(key, **witness)
        return ok
