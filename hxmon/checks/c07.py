"""C07 - comparisons form a consistent total order with number < text < logical.

Boundary recorder: for ordered pairs (a, b) of scalar values injected as variables, cell values and (where
expressible) literals, the six formulas a OP b are evaluated by the real parser.  Two independent oracles:
(i) the algebraic laws on the *observed* six results (trichotomy, derived relations, antisymmetry,
transitivity on triples); (ii) the ranking model number/date < text < logical with blank neutral.
A sys.monitoring probe on ExcelComparator records which (class, class) cells really ran.
"""
import datetime
import itertools

from ..runner import BaseCheck
from ..oracle import serial_of
from ..gen import values as GV
from .. import env, hx, probe
from fractions import Fraction as Fr

OPS = ['<', '=', '>', '<=', '>=', '<>']
MARCH1 = datetime.datetime(1900, 3, 1)


def key(x, other):
    """rank key of x when compared with `other` (statement of C07)"""
    if x is None:
        c = GV.broad_class(other)
        if c == 'text':
            return (1, '')
        if c == 'logical':
            return (2, False)
        return (0, Fr(0))
    if isinstance(x, bool):
        return (2, x)
    if isinstance(x, (int, float)):
        return (0, Fr(x))
    if isinstance(x, str):
        return (1, x)
    return (0, serial_of(x))


def model(a, b):
    ka, kb = key(a, b), key(b, a)
    return {'<': ka < kb, '=': ka == kb, '>': ka > kb, '<=': ka <= kb, '>=': ka >= kb, '<>': ka != kb}


def mech(a, b):
    return '%s-vs-%s' % (GV.broad_class(a), GV.broad_class(b))


class Check(BaseCheck):
    ID = 'C07'
    TITLE = 'Comparisons form a consistent total order with number < text < logical'
    TECHNIQUE = 'boundary recorder on Parser.parse: algebraic laws on observed results + ranking model; comparator coverage probe'
    RULE = ('case = one ordered pair (a,b) of scalars (ints, floats, int/float of equal value, numeric-looking text, empty/mixed-case text, dates, '
            'date-times, logicals, blank) evaluated under the six comparison operators (values injected as variables, cells or literals), plus sampled '
            'triples for transitivity. non-trivial = all six results were obtained and judged against both oracles; distinct = distinct (a,b,injection).')
    ASSUMPTIONS = ('text order is code-point lexicographic (the statement says lexicographic; case-insensitivity is not claimed)',
                   'NaN, infinities, complex numbers and arrays are not scalars of the statement; dates before 1900-03-01 are not compared with numbers',
                   'transitivity is demanded on non-blank values only')

    def plan(self, tier, seed):
        specs = [{'campaign': 'sentinels'}]
        if tier == 'quick':
            for i in range(16):
                specs.append({'campaign': 'pairs', 'pool': 50, 'seed': seed, 'i': i, 'triples': 6000})
            specs.append({'campaign': 'instants', 'seed': seed, 'n': 600})
            specs.append({'campaign': 'timezones', 'seed': seed})
        else:
            for i in range(64):
                specs.append({'campaign': 'pairs', 'pool': 110, 'seed': seed, 'i': i, 'triples': 200000})
            for i in range(8):
                specs.append({'campaign': 'instants', 'seed': seed, 'i': i, 'n': 8000})
                specs.append({'campaign': 'timezones', 'seed': seed, 'i': i})
        return specs

    def run(self, spec, rec):
        env.load()
        self.e = hx.Env()
        self.cellvals = {}
        self.e.p.on('callCellValue', lambda cell, setter: setter(self.cellvals.get(cell.label)))
        cp = probe.CallProbe()
        from hotxlfp.formulas import operators
        comp = getattr(operators, 'ExcelComparator', None)

        def hit(name, frame):
            try:
                rec.cov('comparator_cells', (name, GV.broad_class(frame.f_locals['self'].value), GV.broad_class(frame.f_locals['other'])))
            except Exception:
                pass
        if comp is not None:
            for n in ('__lt__', '__gt__', '__eq__'):
                if hasattr(comp, n):
                    cp.add(getattr(comp, n), hit, n)
        else:
            rec.count('probe_missing')
        cp.start()
        try:
            if spec['campaign'] == 'sentinels':
                self.sentinels(rec)
            elif spec['campaign'] == 'instants':
                self.instants(spec, rec)
            elif spec['campaign'] == 'timezones':
                self.timezones(spec, rec)
            else:
                self.pairs(spec, rec)
        finally:
            cp.stop()

    # ------------------------------------------------------------------
    def six(self, a, b, how):
        """observed results of a OP b for the six operators; None when a formula failed"""
        e = self.e
        out = {}
        if how == 'var':
            e.bind(v_a=a, v_b=b)
            fs = {op: 'v_a%sv_b' % op for op in OPS}
        elif how == 'cell':
            self.cellvals['A1'], self.cellvals['$B$2'] = a, b
            fs = {op: 'A1%s$b$2' % op for op in OPS}
        elif how in ('lit-var', 'var-lit', 'lit-cell'):
            # the two operands reach the comparison by DIFFERENT routes: the same value written in the formula and handed over by the host
            la, lb = self.literal(a), self.literal(b)
            e.bind(v_a=a, v_b=b)
            self.cellvals['$B$2'] = b
            fs = {op: {'lit-var': '%s%sv_b' % (la, op), 'var-lit': 'v_a%s%s' % (op, lb), 'lit-cell': '%s%s$b$2' % (la, op)}[how] for op in OPS}
        else:
            la, lb = self.literal(a), self.literal(b)
            fs = {op: '%s%s%s' % (la, op, lb) for op in OPS}
        for op, f in fs.items():
            r = e.raw(f)
            out[op] = r['result'] if r['error'] is None else 'ERR:' + str(r['error'])
        return out, fs

    @staticmethod
    def literal(x):
        if x is None:
            return 'NULL'
        if isinstance(x, bool):
            return 'TRUE' if x else 'FALSE'
        if isinstance(x, str):
            return hx.strlit(x)
        if isinstance(x, (int, float)):
            return hx.lit(x)
        return None

    def judge_pair(self, rec, a, b, how):
        got, fs = self.six(a, b, how)
        rec.case()
        m = mech(a, b)
        if any(not isinstance(v, bool) for v in got.values()):
            rec.violation('C07/result-not-a-logical:' + m, a=a, b=b, injected=how, got=got)
            return None
        # (i) laws on the observed results, independent of the ranking model
        if [got['<'], got['='], got['>']].count(True) != 1:
            rec.violation('C07/law:trichotomy:' + m, a=a, b=b, injected=how, got=got)
        if got['<='] != (got['<'] or got['=']) or got['>='] != (got['>'] or got['=']) or got['<>'] != (not got['=']):
            rec.violation('C07/law:derived-relations:' + m, a=a, b=b, injected=how, got=got)
        # (ii) ranking model (serials before 1 March 1900 are the library's own: such dates are ranked against dates, text, logicals
        #      and blanks by the model, against numbers only the laws above apply)
        early = [isinstance(x, datetime.datetime) and x < MARCH1 for x in (a, b)]
        isnumber = [isinstance(x, (int, float)) and not isinstance(x, bool) for x in (a, b)]
        if (early[0] and (isnumber[1] or b is None)) or (early[1] and (isnumber[0] or a is None)):
            rec.count('ranking_not_judged_early_1900_date_vs_number')
            rec.cov('class_pairs', (GV.broad_class(a), GV.broad_class(b)))
            rec.nt((repr(a), repr(b), how))
            return got
        exp = model(a, b)
        if got != exp:
            rec.violation('C07/ranking:' + m, a=a, b=b, injected=how, got=got, expected=exp)
        rec.cov('class_pairs', (GV.broad_class(a), GV.broad_class(b)))
        rec.cov('injection', how)
        rec.nt((repr(a), repr(b), how))
        return got

    def pool(self, rnd, n):
        vals = [0, 1, -1, 1.0, 0.0, True, False, None, '', 'a', 'A', '2', '10', 'TRUE', datetime.datetime(2019, 11, 20), 43789, 43789.5,
                datetime.datetime(2019, 11, 20, 12, 0, 0), datetime.datetime(1900, 3, 1), 61, datetime.datetime(9999, 12, 31), -2.5, 'abc', 'abd',
                datetime.datetime(1900, 1, 1), datetime.datetime(1900, 1, 2), datetime.datetime(1900, 2, 28), datetime.datetime(1900, 2, 28, 12, 0), datetime.datetime(1900, 1, 31, 6, 30)]
        classes = GV.SCALAR_CLASSES
        import math
        # numbers a few ulps apart: unequal, so exactly one of < and > holds and order is transitive along the chain
        for base in (1.0, 0.3, rnd.uniform(1, 1000), float(rnd.randint(10 ** 6, 10 ** 12)), 43789.5):
            x = base
            for _ in range(3):
                vals.append(x)
                x = math.nextafter(x, math.inf)
        vals += [0.1 + 0.2, 0.3, 1, 1.0000000000000002, 1.0000000000000007, 2 ** 53, 2 ** 53 + 1, float(2 ** 53)]
        # different texts that some normalisation (NFC/NFKC, case folding) would identify: still different texts, so exactly one of < = > holds
        vals += rnd.sample(['caf\u00e9', 'cafe\u0301', '\u00c5', 'A\u030a', '\u212b', '\ufb01', 'fi', '\u00df', 'ss', 'SS', '\u212a', 'K', 'k', '\u0130', 'i\u0307', 'I', '\u1e9e',
                            '\uff21', '\u00e9', 'e\u0301', '\u0301e', '\U00020000', '\ud55c', '\u1112\u1161\u11ab'], 8)
        # every value together with its look-alike of ANOTHER type: a date and the texts that spell that very date (and its serial),
        # as numbers have '2' and '10', logicals 'TRUE' and the blank ''.  A text is a text: above every number and date.
        for d in [v for v in vals if isinstance(v, datetime.datetime)][:6] + [datetime.datetime(2020, 1, 31), datetime.datetime(2021, 12, 5, 18, 30)]:
            if d not in vals:
                vals.append(d)
            vals += rnd.sample([d.strftime('%Y-%m-%d'), d.isoformat(), d.isoformat(' '), d.strftime('%d %b %Y'), d.strftime('%Y-%m-%d %H:%M'), d.strftime('%m/%d/%Y'), d.strftime('%B %d, %Y'),
                                d.strftime('%Y/%m/%d'), d.strftime('%d.%m.%Y'), d.strftime('%H:%M:%S')], 3)
        vals += ['43789', '43789.5', '61', 'FALSE', 'true', '0', '-1', '1E3', '1e3']
        vals += [rnd.randint(1, 19) + rnd.randint(1, 99) / 100.0 for _ in range(6)] + [1.14, 2.47, 4.56, 114 / 100.0]
        # numbers whose class is a subclass of int or float (an enum member, a unit type): numbers like any other
        import enum
        Level = enum.IntEnum('Level', 'LOW MID HIGH')
        vals += [Level.HIGH, Level.LOW, type('Metres', (float,), {})(2.5), type('Count', (int,), {})(3), type('Metres', (float,), {})(0.0)]
        fixed = len(vals)
        while len(vals) < max(n + 60, fixed + 45):          # at least 45 generated values beside the fixed ones, whatever their number
            vals.append(GV.gen(rnd, rnd.choice(classes)))
        rnd.shuffle(vals)
        return vals[:max(n, fixed + 45)]

    def pairs(self, spec, rec):
        rnd = self.rng(spec)
        vals = self.pool(rnd, spec['pool'])
        results = {}
        for ia, a in enumerate(vals):
            for ib, b in enumerate(vals):
                how = 'var'
                k = rnd.random()
                if k < 0.15:
                    how = 'cell'
                elif k < 0.35 and self.literal(a) is not None and self.literal(b) is not None:
                    how = rnd.choice(['lit', 'lit', 'lit-var', 'var-lit', 'lit-cell'])
                got = self.judge_pair(rec, a, b, how)
                if got is not None:
                    results[(ia, ib)] = got
                    rev = results.get((ib, ia))
                    if rev is not None and (got['<'] != rev['>'] or got['>'] != rev['<'] or got['='] != rev['=']):
                        rec.violation('C07/law:a<b-iff-b>a:' + mech(a, b), a=a, b=b, forward=got, backward=rev)
        rec.sample({'pair': [repr(vals[0]), repr(vals[1])], 'six_results': {k: v for k, v in results.get((0, 1), {}).items()}})
        # transitivity on observed results over non-blank triples
        nb = [i for i, v in enumerate(vals) if v is not None]
        for _ in range(spec['triples']):
            i, j, k = rnd.choice(nb), rnd.choice(nb), rnd.choice(nb)
            rec.case()
            r1, r2, r3 = results.get((i, j)), results.get((j, k)), results.get((i, k))
            if not (r1 and r2 and r3):
                continue
            le = lambda r: r['<'] or r['=']
            if le(r1) and le(r2) and not le(r3):
                rec.violation('C07/law:transitivity:%s' % '-'.join(GV.broad_class(vals[x]) for x in (i, j, k)), a=vals[i], b=vals[j], c=vals[k])
            if r1['<'] and r2['<'] and not r3['<']:
                rec.violation('C07/law:transitivity:%s' % '-'.join(GV.broad_class(vals[x]) for x in (i, j, k)), a=vals[i], b=vals[j], c=vals[k])
            rec.count('triples_checked')

    def instants(self, spec, rec):
        """Date-times closer together than the serial resolves (microseconds apart), together with the number that N() reports for one of them.
        Which of < = > holds between two such instants is not claimed - but the laws are: exactly one holds, the derived relations follow,
        a<b iff b>a, and <= and = are transitive across the date-times and the number alike (dates order by their serial)."""
        rnd = self.rng(spec)
        for _ in range(spec['n']):
            y = rnd.choice([1950, 2024, 2500, 5000, 9000, 9999, rnd.randint(1901, 9998)])
            a = datetime.datetime(y, rnd.randint(1, 12), rnd.randint(1, 28), rnd.randint(0, 23), rnd.randint(0, 59), rnd.randint(0, 59), rnd.randrange(1000000))
            b = a + datetime.timedelta(microseconds=rnd.choice([1, 1, 2, 10, 100, 400, 999]))
            n = self.e.val('N(v_a)', v_a=a) if hasattr(self.e, 'val') else None
            if not (isinstance(n, (int, float)) and not isinstance(n, bool)):
                rec.inconcl('N(date-time) did not give a number: %r' % (n,))
                return
            vals = [a, n, b]
            res = {}
            for i in range(3):
                for j in range(3):
                    got, _ = self.six(vals[i], vals[j], 'var')
                    rec.case()
                    if any(not isinstance(v, bool) for v in got.values()):
                        rec.violation('C07/result-not-a-logical:' + mech(vals[i], vals[j]), a=vals[i], b=vals[j], got=got)
                        continue
                    res[(i, j)] = got
                    if [got['<'], got['='], got['>']].count(True) != 1:
                        rec.violation('C07/law:trichotomy:' + mech(vals[i], vals[j]) + ':instants-closer-than-the-serial-resolves', a=vals[i], b=vals[j], got=got)
                    if got['<='] != (got['<'] or got['=']) or got['>='] != (got['>'] or got['=']) or got['<>'] != (not got['=']):
                        rec.violation('C07/law:derived-relations:' + mech(vals[i], vals[j]) + ':instants-closer-than-the-serial-resolves', a=vals[i], b=vals[j], got=got)
            if len(res) < 9:
                continue
            for (i, j), g in res.items():
                r = res[(j, i)]
                if g['<'] != r['>'] or g['='] != r['=']:
                    rec.violation('C07/law:a<b-iff-b>a:' + mech(vals[i], vals[j]) + ':instants-closer-than-the-serial-resolves', a=vals[i], b=vals[j], forward=g, backward=r)
            for i in range(3):
                for j in range(3):
                    for k in range(3):
                        le = lambda r_: r_['<'] or r_['=']
                        if le(res[(i, j)]) and le(res[(j, k)]) and not le(res[(i, k)]):
                            rec.violation('C07/law:transitivity:instants-closer-than-the-serial-resolves', a=vals[i], b=vals[j], c=vals[k], ab=res[(i, j)], bc=res[(j, k)], ac=res[(i, k)])
                        if res[(i, j)]['='] and res[(j, k)]['='] and not res[(i, k)]['=']:
                            rec.violation('C07/law:transitivity-of-equality:instants-closer-than-the-serial-resolves', a=vals[i], b=vals[j], c=vals[k])
            rec.nt(('instants', a.isoformat(), b.isoformat()))
            rec.count('instant_triples')

    def timezones(self, spec, rec):
        """dates order by their serial wherever the process runs: the worker's time zone is switched (POSIX TZ rules, no zone database needed)
        and dates are ranked against the numbers that are their serials, against each other across daylight-saving changes, and against text"""
        import os, time
        rnd = self.rng(spec)
        old = os.environ.get('TZ')
        real = rec.violation
        T = datetime.datetime
        try:
            for z in ('EST5EDT,M3.2.0,M11.1.0', 'CET-1CEST,M3.5.0,M10.5.0/3', 'AEST-10AEDT,M10.1.0,M4.1.0/3', 'IST-5:30'):
                os.environ['TZ'] = z
                time.tzset()
                rec.violation = lambda key, _z=z, **w: real(key + ':process-time-zone-not-UTC', process_time_zone=_z, **w)
                vals = []
                for (y, mo, d) in ((2021, 7, 1), (2021, 3, 28), (2021, 3, 14), (2021, 11, 7), (2024, 1, 1), (1999, 12, 31), (rnd.randint(1901, 9998), rnd.randint(1, 12), rnd.randint(1, 28))):
                    day = T(y, mo, d)
                    sn = day.toordinal() - datetime.date(1899, 12, 30).toordinal()
                    vals += [day, sn, sn + 0.0625, day + datetime.timedelta(hours=1, minutes=30), day + datetime.timedelta(hours=2, minutes=30), day + datetime.timedelta(hours=3),
                             sn - 0.01, 'a', True]
                for a in vals:
                    for b in rnd.sample(vals, 12):
                        self.judge_pair(rec, a, b, 'var')
                rec.count('timezones_exercised')
        finally:
            rec.violation = real
            if old is None:
                os.environ.pop('TZ', None)
            else:
                os.environ['TZ'] = old
            time.tzset()

    def sentinels(self, rec):
        T = datetime.datetime
        for a, b in [(True, 3), (3, True), (1, True), (True, 1), (False, 0), (0, False), (True, 'z'), ('z', True), ('2', 3), (3, '2'), (None, 0),
                     (None, ''), (None, False), (None, True), (None, 'a'), (None, -1), (0, None), ('', None), (None, None), (1, 1.0), ('a', 'A'),
                     (T(2019, 1, 1), 43466), (43466, T(2019, 1, 1)), (T(2019, 1, 1), 'a'), (T(2019, 1, 1), True), (T(2019, 1, 1), None),
                     (T(2019, 1, 1, 12), 43466.5), (-1, ''), ('', 0), (False, 'x'), (True, False), (2.5, 2), ('10', '9')]:
            for how in ('var', 'cell', 'lit'):
                if how == 'lit' and (self.literal(a) is None or self.literal(b) is None):
                    continue
                self.judge_pair(rec, a, b, how)

    def judge(self, merged, tier):
        why = []
        if len(merged['cover'].get('class_pairs', ())) < 25:
            why.append('not all 25 class pairs were compared: %d' % len(merged['cover'].get('class_pairs', ())))
        return why
