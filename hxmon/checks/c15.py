"""C15 - text functions satisfy the string algebra they document.

Boundary recorder: identities are evaluated *as formulas* (so & and the functions are exercised together), slice
functions are compared with explicit index arithmetic, case/space/control functions with "changes only X" + idempotence
oracles, joins with a three-line model and SUBSTITUTE with a left-to-right occurrence scan.
"""
import unicodedata

from .common import FormulaCheck
from .. import hx

ALPHA = ('abcXYZ019 ,.;:!?-_()[]{}\'"#%&*+/<=>@\\^|~`$' + '\t\n\r\x00\x01\x1f\x7f' + 'àéîõüçñÀÉÎÕÜÇÑ' + '你好世界日本語' +
         '\U00020000\U00020bb7\U0002a6d6')      # CJK letters beyond the Basic Multilingual Plane: one character each, two UTF-16 units


DQ, SQ = chr(34) * 2, chr(39) * 2


def rs(rnd, n=None, maxlen=60):
    n = rnd.randint(0, rnd.choice([4, 12, 30, maxlen])) if n is None else n
    if rnd.random() < 0.25:
        return ''.join(rnd.choice('ab  \t') for _ in range(n))
    out = ''.join(rnd.choice(ALPHA if rnd.random() < 0.7 else 'ab ') for _ in range(n))
    if n >= 2 and rnd.random() < 0.04:
        k = rnd.randrange(n - 1)
        out = out[:k] + rnd.choice([DQ, SQ, chr(92) * 2, DQ * 2]) + out[k + 2:]      # doubled delimiters and backslashes: characters like any other
    if n >= 1 and rnd.random() < 0.05:
        # control characters in the company they keep in pasted text (terminal escape sequences, line ends, backspacing): CLEAN removes
        # the control characters - the printing characters of the sequence stay
        k = rnd.randrange(len(out) + 1)
        out = (out[:k] + rnd.choice(['\x1b[1;31m', '\x1b[0m', '\x1b[Z', '\x1b]0;t\x07', '\x1b(B', 'a\x08', '\r\n', '\x1b[2J', '\x1bM', '\x1b[?25l', '\x0e\x0f', '\x1b[38;5;196m',
                                     chr(rnd.randrange(32)) + rnd.choice('[]()m;0')]) + out[k:])[:max(n, 12)]
    return out


def substitute(text, old, new, k=None):
    """left-to-right non-overlapping occurrence model"""
    if old == '':
        return text
    parts = text.split(old)
    if k is None:
        return new.join(parts)
    if k > len(parts) - 1:
        return text
    return old.join(parts[:k]) + new + old.join(parts[k:])


def flat(a):
    for x in a:
        if isinstance(x, list):
            for y in flat(x):
                yield y
        else:
            yield x


class Check(FormulaCheck):
    ID = 'C15'
    TITLE = 'Text functions satisfy the string algebra they document'
    TECHNIQUE = 'boundary recorder on Parser.parse; identities evaluated as formulas; index-arithmetic / occurrence-scan / join models'
    RULE = ('case = one formula over a seeded string (length 0-60 over ASCII letters, digits, punctuation, spaces, control characters, accented and CJK letters incl. three beyond U+FFFF) '
            'with counts 0..len+5 and negatives, (old,new,k) with non-self-overlapping old, item lists with blanks (flat and nested). '
            'non-trivial = result compared with the model; distinct = distinct (function/identity, arguments).')
    ASSUMPTIONS = ('letters whose case mapping changes length or yields marks are judged for idempotence and case-only change on the whole text (not character by character); counts are integers, except that negative fractions are negative counts too',
                   'TEXTJOIN items are text or blank, CONCATENATE items also whole numbers (spelled by their decimal digits); empty text is text and is not used together with ignore_empty=TRUE',
                   'PROPER upper-cases exactly after a non-letter is asserted on ASCII-only strings; CLEAN need not remove U+007F')

    NO_AMBIENT = ('charcode',)

    def plan(self, tier, seed):
        n, k = (450, 16) if tier == 'quick' else (25000, 32)
        specs = [{'campaign': 'sentinels'}]
        # CODE(CHAR(n)) = n: exhaustive over the Basic Multilingual Plane (quick) / over every code point (thorough), in 16 shards
        top = 0x10000 if tier == 'quick' else 0x110000
        for i in range(16):
            specs.append({'campaign': 'charcode', 'seed': seed, 'lo': 1 + i * (top // 16), 'hi': min(top, 1 + (i + 1) * (top // 16)) if i < 15 else top,
                          'n': 300 if tier == 'quick' else 0})
        for i in range(k):
            specs.append({'campaign': 'strings', 'seed': seed, 'n': n, 'i': i})
        return specs

    def c_strings(self, spec, rec):
        rnd = self.rng(spec)
        for _ in range(spec['n']):
            s = rs(rnd)
            self.slices(rnd, s)
            self.casefuncs(rnd, s)
            self.subst(rnd)
            if rnd.random() < 0.1:
                self.code_lookalikes(rnd)
            self.joins(rnd)
            rec.sample({'string': s})

    # ------------------------------------------------------------------
    def slices(self, rnd, s):
        L = len(s)
        rec = self.rec
        counts = sorted(set([0, 1, L, L + 1, L + 5, max(L - 1, 0), -1, -3, rnd.choice([-0.5, -0.25, -1e-9, -2.5, -0.999, -1.5, -1e-300])] + [rnd.randint(0, L + 5) for _ in range(4)]))
        for n in counts:
            l = self.ev('LEFT(v_s,v_n)', v_s=s, v_n=n)
            r = self.ev('RIGHT(v_s,v_n)', v_s=s, v_n=n)
            m = self.ev('MID(v_s,1,v_n)', v_s=s, v_n=n)
            rec.nt(('slice', s, n))
            if isinstance(n, int) and n >= 0:
                # a count is a count whether it is held as an int or as a float (4/2 characters are two characters)
                lf, rf, mf = self.ev('LEFT(v_s,v_n)', v_s=s, v_n=float(n)), self.ev('RIGHT(v_s,v_n)', v_s=s, v_n=float(n)), self.ev('MID(v_s,v_a,v_n)', v_s=s, v_a=1.0, v_n=float(n))
                self.expect('C15/LEFT-RIGHT-MID:count-held-as-float', (lf, rf, mf) == (l, r, m), s=s, n=float(n), got=(lf, rf, mf), with_int_count=(l, r, m))
            if n < 0:
                self.expect('C15/negative-count-not-#VALUE!', l == r == m == 'ERR:#VALUE!', s=s, n=n, left=l, right=r, mid=m)
                continue
            self.expect('C15/LEFT', l == s[:n], s=s, n=n, got=l)
            exp_r = s[L - n:] if n <= L else s
            self.expect('C15/RIGHT' + (':count-0' if n == 0 else ''), r == exp_r, s=s, n=n, got=r, expected=exp_r)
            self.expect('C15/MID(s,1,n)=LEFT(s,n)', m == s[:n], s=s, n=n, mid=m)
            if n <= L:
                j = self.ev('LEFT(v_s,v_n)&RIGHT(v_s,LEN(v_s)-v_n)', v_s=s, v_n=n)
                self.expect('C15/LEFT&RIGHT=s' + (':count-0' if n in (0, L) else ''), j == s, s=s, n=n, got=j)
        a, k = rnd.randint(1, L + 3), rnd.randint(0, L + 2)
        g = self.ev('MID(v_s,v_a,v_k)', v_s=s, v_a=a, v_k=k)
        self.expect('C15/MID', g == s[a - 1:a - 1 + k], s=s, start=a, count=k, got=g)
        # characters are numbered from 1: position 0 or a negative one requests no inner characters at all - an error, never the text's tail
        bad = rnd.choice([0, -1, -2, -L, -L - 1])
        g = self.ev('MID(v_s,v_a,v_k)', v_s=s, v_a=bad, v_k=max(k, 1))
        self.expect('C15/MID:start-before-the-first-character-yields-text', self.is_err(g), s=s, start=bad, count=max(k, 1), got=g)
        t2 = rs(rnd, maxlen=20)
        la, lb, lab = self.ev('LEN(v_a)', v_a=s), self.ev('LEN(v_b)', v_b=t2), self.ev('LEN(v_a&v_b)', v_a=s, v_b=t2)
        self.expect('C15/LEN', la == len(s) and lb == len(t2), a=s, b=t2, got=(la, lb), expected=(len(s), len(t2)))
        self.expect('C15/LEN(a&b)=LEN(a)+LEN(b)', lab == len(s) + len(t2), a=s, b=t2, got=lab)
        lit = hx.strlit(s)
        if lit is not None and (rnd.random() < 0.3 or DQ in s or SQ in s):
            # written as a literal of whichever quote kind can hold it (a text with a quotation mark goes between apostrophes): every character counts
            g = self.ev('LEN(%s)' % lit)
            self.expect('C15/LEN', g == len(s), s=s, got=g, literal=lit[:1])
            if s and not s.endswith(chr(92)):       # (a literal ending in a backslash that is followed by another literal is C05's open finding)
                j = self.ev('LEFT(%s,1)&RIGHT(%s,LEN(%s)-1)' % (lit, lit, lit))
                self.expect('C15/LEFT&RIGHT=s', j == s, s=s, n=1, got=j, literal=lit[:1])

    # accented letters whose case mapping changes the length of the text, has a separate title case, depends on position, or that are
    # written with combining marks: 'changes only letter case' is judged on the whole text (case-folded), idempotence as everywhere
    SPECIAL = ('\u00df\u1e9e\u0149\u01f0\u0390\u03b0\u0130\u0131\ufb01\ufb02\ufb03\u01c4\u01c5\u01c6\u01f1\u01f2\u01f3\u03a3\u03c3\u03c2\u1f80\u1f88\u1fb3\u1fbc\u0345'
               'e\u0301E\u0301a\u0308\u0307\u02bc\u00b5\u212a\u212b\u017f')

    def casefuncs_special(self, rnd):
        rec = self.rec
        s = ''.join(rnd.choice(self.SPECIAL if rnd.random() < 0.5 else 'ab Z1-.') for _ in range(rnd.randint(1, 12)))
        for fn in ('UPPER', 'LOWER', 'PROPER', 'TRIM', 'CLEAN'):
            o = self.ev(fn + '(v_s)', v_s=s)
            o2 = self.ev('%s(%s(v_s))' % (fn, fn), v_s=s)
            rec.nt((fn, s))
            if not self.expect('C15/%s-not-text' % fn, isinstance(o, str) and not self.is_err(o), s=s, got=o):
                continue
            self.expect('C15/%s-not-idempotent:special-casing' % fn, o == o2, s=s, once=o, twice=o2)
            if fn in ('UPPER', 'LOWER', 'PROPER'):
                # same text up to case: compared after upper-casing and case-folding both (the dotless i folds to itself but upper-cases
                # to I), in canonical decomposition (case mappings compose and decompose accents freely)
                fold = lambda t: unicodedata.normalize('NFD', unicodedata.normalize('NFD', t.upper()).casefold())
                self.expect('C15/%s-changes-more-than-case:special-casing' % fn, fold(o) == fold(s), s=s, got=o)
            else:
                self.expect('C15/%s-changes-letters' % fn, o.replace(' ', '') == s.replace(' ', '') if fn == 'TRIM' else o == s, s=s, got=o)

    def casefuncs(self, rnd, s):
        rec = self.rec
        if rnd.random() < 0.3:
            self.casefuncs_special(rnd)
        for fn in ('UPPER', 'LOWER', 'PROPER', 'TRIM', 'CLEAN'):
            o = self.ev(fn + '(v_s)', v_s=s)
            o2 = self.ev('%s(%s(v_s))' % (fn, fn), v_s=s)
            rec.nt((fn, s))
            if not self.expect('C15/%s-not-text' % fn, isinstance(o, str) and not self.is_err(o), s=s, got=o):
                continue
            self.expect('C15/%s-not-idempotent' % fn, o == o2, s=s, once=o, twice=o2)
            if fn in ('UPPER', 'LOWER', 'PROPER'):
                only = len(o) == len(s) and all(x.casefold() == y.casefold() for x, y in zip(o, s))
                self.expect('C15/%s-changes-more-than-case' % fn, only, s=s, got=o)
                if fn == 'UPPER':
                    self.expect('C15/UPPER-leaves-lower-case', not any(c.islower() for c in o), s=s, got=o)
                elif fn == 'LOWER':
                    self.expect('C15/LOWER-leaves-upper-case', not any(c.isupper() for c in o), s=s, got=o)
                elif s.isascii():
                    exp = ''.join(c.upper() if (i == 0 or not s[i - 1].isalpha()) else c.lower() for i, c in enumerate(s))
                    self.expect('C15/PROPER-ascii-rule', o == exp, s=s, got=o, expected=exp)
            elif fn == 'TRIM':
                self.expect('C15/TRIM-changes-more-than-spaces', o.replace(' ', '') == s.replace(' ', ''), s=s, got=o)
                self.expect('C15/TRIM-leaves-surplus-spaces', not (o.startswith(' ') or o.endswith(' ') or '  ' in o), s=s, got=o)
            else:
                it = iter(s)
                sub = all(any(c == d for d in it) for c in o)
                removed_ok = sub and all(unicodedata.category(c) == 'Cc' for c in set(s) if s.count(c) != o.count(c))
                self.expect('C15/CLEAN-changes-more-than-controls', removed_ok, s=s, got=o)
                self.expect('C15/CLEAN-leaves-control-characters', not any(ord(c) < 32 for c in o), s=s, got=o)

    def code_lookalikes(self, rnd):
        """a text function whose RESULT is, character for character, an error code: it is that text, not the error"""
        rec = self.rec
        code = rnd.choice(['#N/A', '#DIV/0!', '#VALUE!', '#REF!', '#NAME?', '#NUM!', '#NULL!', '#ERROR!', '#GETTING_DATA'])
        tail = rs(rnd, rnd.randint(1, 5)) or 'x'
        k = len(code)
        cut = rnd.randint(1, k - 1)
        for f, args in (('LEFT(v_s,v_n)', dict(v_s=code + tail, v_n=k)), ('RIGHT(v_s,v_n)', dict(v_s=tail + code, v_n=k)), ('MID(v_s,v_a,v_n)', dict(v_s=tail + code + tail, v_a=len(tail) + 1, v_n=k)),
                        ('UPPER(v_s)', dict(v_s=code.lower())), ('TRIM(v_s)', dict(v_s='  ' + code + ' ')), ('CLEAN(v_s)', dict(v_s=code[:cut] + '\x01' + code[cut:])),
                        ('CONCATENATE(v_a,v_b)', dict(v_a=code[:cut], v_b=code[cut:])), ('SUBSTITUTE(v_s,"~","")', dict(v_s=code[:cut] + '~' + code[cut:])),
                        ('TEXTJOIN("",TRUE,v_a,v_b)', dict(v_a=code[:cut], v_b=code[cut:])), ('v_a&v_b', dict(v_a=code[:cut], v_b=code[cut:])), ('LEFT(v_s,v_n)&""', dict(v_s=code + tail, v_n=k))):
            if f.startswith('UPPER') and code.lower().upper() != code:
                continue
            r = self.raw(f, **args)
            self.expect('C15/result-that-spells-an-error-code-is-not-that-text', r == {'result': code, 'error': None}, formula=f, arguments=args, record=r, expected=code)
            rec.nt(('lookalike', f, code))
        g = self.ev('LEN(LEFT(v_s,v_n))', v_s=code + tail, v_n=k)
        self.expect('C15/result-that-spells-an-error-code-is-not-that-text', g == k, formula='LEN(LEFT(v_s,v_n))', s=code + tail, got=g, expected=k)

    def subst(self, rnd):
        rec = self.rec
        # nothing to look for, or nowhere to look: no occurrence, so the text comes back unchanged (never new text squeezed between the characters)
        s0, w0 = rs(rnd, maxlen=12), rnd.choice(['', 'Q', '--', rs(rnd, 2)])
        for f, args, exp in (('SUBSTITUTE(v_s,"",v_w)', dict(v_s=s0, v_w=w0), s0), ('SUBSTITUTE(v_s,"",v_w,1)', dict(v_s=s0, v_w=w0), s0),
                             ('SUBSTITUTE("",v_o,v_w)', dict(v_o=s0 or 'a', v_w=w0), ''), ('SUBSTITUTE("","",v_w)', dict(v_w=w0), '')):
            g = self.ev(f, **args)
            self.expect('C15/SUBSTITUTE:empty-old-or-empty-text-changes-the-text', g == exp, formula=f, arguments=args, got=g, expected=exp)
            rec.nt(('subst-empty', f, s0, w0))
        old = rs(rnd, rnd.randint(1, 3))
        if not old or any(old[:i] == old[-i:] for i in range(1, len(old))):
            return
        base = ''.join(rnd.choice([old, old, 'x', 'yz', ' ', ',']) for _ in range(rnd.randint(0, 8)))
        if rnd.random() < 0.2:
            base = rs(rnd, maxlen=20)          # usually no occurrence at all
        new = rnd.choice(['', '', 'Q', old + old, '--', rs(rnd, 2), ','])
        exp = substitute(base, old, new)
        g = self.ev('SUBSTITUTE(v_s,v_o,v_w)', v_s=base, v_o=old, v_w=new)
        tag = (':empty-new-text' if new == '' else '')
        self.expect('C15/SUBSTITUTE-all' + tag, g == exp, text=base, old=old, new=new, got=g, expected=exp)
        rec.nt(('subst', base, old, new))
        occ = base.count(old)
        for k in range(1, occ + 3):
            exp = substitute(base, old, new, k)
            g = self.ev('SUBSTITUTE(v_s,v_o,v_w,v_k)', v_s=base, v_o=old, v_w=new, v_k=k)
            self.expect('C15/SUBSTITUTE-kth' + tag, g == exp, text=base, old=old, new=new, k=k, got=g, expected=exp)
            rec.nt(('substk', base, old, new, k))

    def joins(self, rnd):
        rec = self.rec
        items = [rnd.choice([rs(rnd, 3) or 'q', None, rs(rnd, 2) or 'w', 'a,b']) for _ in range(rnd.randint(1, 6))]
        nested = [items[:2], [items[2:4]]] + items[4:] if len(items) > 3 else list(items)
        d = rnd.choice(['', ',', '--', ' ', ';'])
        nn = [x for x in items if x is not None]
        g = self.ev('TEXTJOIN(v_d,TRUE,v_a)', v_d=d, v_a=nested)
        self.expect('C15/TEXTJOIN-skip-blanks', g == d.join(nn), items=items, delimiter=d, got=g, expected=d.join(nn))
        # the same list object named twice (and aliased inside a grid): its items are joined as often as they are named
        alias = [x for x in items if x is not None] or ['q']
        self.e.bind(v_l=alias, v_g=[alias, alias])
        g = self.ev('CONCATENATE(v_l,v_l)')
        self.expect('C15/CONCATENATE:same-host-list-named-twice', g == ''.join(alias) * 2, items=alias, got=g)
        g = self.ev('CONCATENATE(v_g,"|",v_l)')
        self.expect('C15/CONCATENATE:same-host-list-named-twice', g == ''.join(alias) * 2 + '|' + ''.join(alias), items=alias, got=g)
        g = self.ev('TEXTJOIN(v_d,TRUE,v_l,"w",v_l)', v_d=d)
        self.expect('C15/TEXTJOIN:same-host-list-named-twice', g == d.join(alias + ['w'] + alias), items=alias, delimiter=d, got=g)
        g = self.ev('TEXTJOIN(v_d,FALSE,v_a)', v_d=d, v_a=nested)
        self.expect('C15/TEXTJOIN-keep-blanks', g == d.join(x or '' for x in items), items=items, delimiter=d, got=g)
        for i, x in enumerate(items):
            self.e.bind(**{hx.varname(i, 'it'): x})
        names = ','.join(hx.varname(i, 'it') for i in range(len(items)))
        g = self.ev('TEXTJOIN(v_d,TRUE,%s)' % names, v_d=d)
        self.expect('C15/TEXTJOIN-skip-blanks', g == d.join(nn), items=items, delimiter=d, got=g, separate_args=True)
        exp = ''.join(x or '' for x in items)
        g = self.ev('CONCATENATE(v_a)', v_a=nested)
        self.expect('C15/CONCATENATE' + (':blank-item' if None in items else ''), g == exp, items=items, got=g, expected=exp)
        g = self.ev('CONCATENATE(%s)' % names)
        self.expect('C15/CONCATENATE' + (':blank-item' if None in items else ''), g == exp, items=items, got=g, expected=exp, separate_args=True)
        g = self.ev('CONCAT(%s)' % names)
        self.expect('C15/CONCATENATE' + (':blank-item' if None in items else ''), g == exp, items=items, got=g, expected=exp, fn='CONCAT')
        # a whole number among the items has one spelling - its decimal digits - and takes its place in order
        mixed = [rnd.choice([0, 1, -3, 42, 10 ** 15, 2 ** 63]) if (x is not None and rnd.random() < 0.3) else x for x in items]
        if any(isinstance(x, int) for x in mixed):
            exp = ''.join('' if x is None else str(x) for x in mixed)
            for i, x in enumerate(mixed):
                self.e.bind(**{hx.varname(i, 'it'): x})
            for fn in ('CONCATENATE', 'CONCAT'):
                g = self.ev('%s(%s)' % (fn, names))
                self.expect('C15/CONCATENATE:whole-number-item', g == exp, items=mixed, got=g, expected=exp, fn=fn)
            lit = ','.join('""' if x is None else (str(x) if isinstance(x, int) else hx.varname(i, 'it')) for i, x in enumerate(mixed))
            g = self.ev('CONCATENATE(%s)' % lit)
            self.expect('C15/CONCATENATE:whole-number-item', g == exp, items=mixed, got=g, expected=exp, literal=True)
            g = self.ev('CONCATENATE(v_a)', v_a=[mixed[:1], mixed[1:]])
            self.expect('C15/CONCATENATE:whole-number-item', g == exp, items=mixed, got=g, expected=exp, nested=True)
        rec.nt(('join', tuple(items), d))

    def c_charcode(self, spec, rec):
        rnd = self.rng(spec)
        ns = list(range(spec['lo'], spec['hi'])) + [rnd.randint(0x10000, 0x10FFFF) for _ in range(spec['n'])]
        rec.count('code_points_enumerated', spec['hi'] - spec['lo'])
        for n in ns:
            if 0xD800 <= n <= 0xDFFF:
                continue
            g = self.ev('CODE(CHAR(v_n))', v_n=n)
            self.expect('C15/CODE(CHAR(n))', g == n, n=n, got=g)
            rec.nt(('charcode', n))
        rec.sample({'formula': 'CODE(CHAR(v_n))', 'v_n': ns[-1]})

    def c_sentinels(self, spec, rec):
        ev = self.ev
        self.expect('C15/RIGHT:count-0', ev('RIGHT("abc",0)') == '', formula='RIGHT("abc",0)', got=ev('RIGHT("abc",0)'))
        self.expect('C15/LEFT&RIGHT=s:count-0', ev('LEFT("abc",3)&RIGHT("abc",LEN("abc")-3)') == 'abc', formula='LEFT("abc",3)&RIGHT("abc",0)')
        g = ev('SUBSTITUTE("banana","an","")')
        self.expect('C15/SUBSTITUTE-all:empty-new-text', g == 'ba', formula='SUBSTITUTE("banana","an","")', got=g)
        g = ev('SUBSTITUTE("banana","an","",2)')
        self.expect('C15/SUBSTITUTE-kth:empty-new-text', g == 'bana', formula='SUBSTITUTE("banana","an","",2)', got=g)
        g = ev('TRIM(v_s)', v_s='\ta  b \n')
        self.expect('C15/TRIM-changes-more-than-spaces', g == '\ta b \n', s='\ta  b \n', got=g)
        g = ev('CONCATENATE("x",NULL)')
        self.expect('C15/CONCATENATE:blank-item', g == 'x', formula='CONCATENATE("x",NULL)', got=g)
        g = ev('LEFT("abc",5)&"|"&RIGHT("abc",5)&"|"&MID("abc",2,9)')
        self.expect('C15/slices-more-than-length', g == 'abc|abc|bc', got=g)
        g = ev('SUBSTITUTE(v_s,",",";")', v_s='a,b,c')
        self.expect('C15/SUBSTITUTE-all', g == 'a;b;c', got=g)
        g = ev('TEXTJOIN(",",TRUE,"a",NULL,"b")')
        self.expect('C15/TEXTJOIN-skip-blanks', g == 'a,b', got=g)
        g = ev('PROPER("hello wORLD 2nd-time")')
        self.expect('C15/PROPER-ascii-rule', g == 'Hello World 2Nd-Time', got=g)
        for f in ('sentinels',):
            rec.nt(f)
        rec.nt('sentinels2')

    def judge(self, merged, tier):
        want = (0x10000 if tier == 'quick' else 0x110000) - 1
        got = merged['counts'].get('code_points_enumerated', 0)
        return [] if got == want else ['CODE(CHAR(n)) sweep incomplete: %d of %d code points' % (got, want)]

    def extra(self, merged):
        n = merged['counts'].get('code_points_enumerated', 0)
        return {'exhaustive_subspace': 'CODE(CHAR(n)) = n for every n in 1..%d (surrogates excluded)' % n}

