"""hxmon - runtime monitors and workloads deciding properties C01-C20 of aidhound/hotxlfp."""
