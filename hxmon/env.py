"""Locate the tree under test and the helper libraries; import the *working tree* copy of hotxlfp."""
import os
import sys

VERIF = os.path.dirname(os.path.dirname(os.path.abspath(__file__)))
REPO = os.path.realpath(os.environ.get('HXMON_REPO', '/repo'))
DEPS = os.path.join(VERIF, '.deps')
WORK = os.path.join(VERIF, '.work')
GUARD = 'HOTXLFP_VERIF'

_loaded = None


def setup_paths():
    os.environ.setdefault(GUARD, '1')
    for p in (DEPS, REPO):
        if p in sys.path:
            sys.path.remove(p)
    sys.path.insert(0, DEPS)
    sys.path.insert(0, REPO)


def load():
    """Import hotxlfp from REPO (never an installed copy) and return the package."""
    global _loaded
    if _loaded is not None:
        return _loaded
    setup_paths()
    import hotxlfp
    here = os.path.realpath(hotxlfp.__file__)
    if not here.startswith(REPO + os.sep):
        raise RuntimeError('hotxlfp imported from %s, expected under %s' % (here, REPO))
    _loaded = hotxlfp
    return hotxlfp


def warm():
    """Build one Parser in this process so that ply regenerates its (git-ignored) table file
    once, before any worker starts; workers then only read it."""
    hx = load()
    import io
    import contextlib
    buf = io.StringIO()
    with contextlib.redirect_stderr(buf):
        hx.Parser()
    return buf.getvalue()
