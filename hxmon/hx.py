"""Small conveniences for driving the real library from workloads."""
import contextlib
import io
import sys

from . import env
from .oracle import outcome

LETTERS = 'abcdefghijklmnopqrstuvwxyz'


def varname(i, prefix='v'):
    """Identifier without digits (names shaped letters+digits lex as cell references)."""
    s = ''
    i += 1
    while i > 0:
        i, r = divmod(i - 1, 26)
        s = LETTERS[r] + s
    return prefix + '_' + s


class Env(object):
    """A hotxlfp.Parser plus helpers.  ev() returns the canonical outcome, raw() the record."""

    def __init__(self, debug=False, parser=None):
        self.hx = env.load()
        self.p = parser if parser is not None else self.hx.Parser(debug=debug)

    def bind(self, **vars):
        for k, v in vars.items():
            self.p.set_variable(k, v)

    def raw(self, formula, **vars):
        if vars:
            self.bind(**vars)
        return self.p.parse(formula)

    def ev(self, formula, **vars):
        return outcome(self.raw(formula, **vars))

    def val(self, formula, **vars):
        """result value, or the string 'ERR:<code>'."""
        r = self.raw(formula, **vars)
        return r['result'] if r['error'] is None else 'ERR:' + str(r['error'])


def errors():
    env.load()
    from hotxlfp.formulas import error
    return error


def error_objects():
    e = errors()
    return {'#NULL!': e.NULL, '#DIV/0!': e.DIV_ZERO, '#VALUE!': e.VALUE, '#REF!': e.REF, '#NAME?': e.NAME,
            '#NUM!': e.NUM, '#N/A': e.NOT_AVAILABLE, '#GETTING_DATA': e.DATA, '#ERROR!': e.ERROR}


@contextlib.contextmanager
def quiet_stderr():
    old = sys.stderr
    sys.stderr = io.StringIO()
    try:
        yield sys.stderr
    finally:
        sys.stderr = old


def numlit(x):
    """Spell a non-negative int / finite float as a formula literal made of digits and at most one dot
    (the lexer has no exponent form).  Returns None when that is impossible without loss."""
    if isinstance(x, bool):
        return None
    if isinstance(x, int):
        return str(x) if x >= 0 else None
    if x < 0 or x != x or x in (float('inf'),):
        return None
    s = repr(x)
    if 'e' in s or 'E' in s:
        from decimal import Decimal
        s = format(Decimal(s), 'f')
    if float(s) != x:
        return None
    return s


def lit(x):
    """Formula text for a number of either sign; negative numbers are parenthesised unary minus."""
    if x < 0:
        s = numlit(-x)
        return None if s is None else '(-%s)' % s
    return numlit(x)


def strlit(s):
    """Formula text for a string literal, or None when no quoting can express it.

    A literal cannot contain its own delimiter, and (C05 statement scope) a backslash directly before
    the closing quote is avoided by choosing the other quote only when possible."""
    if '"' not in s:
        return '"%s"' % s
    if "'" not in s:
        return "'%s'" % s
    return None
