"""Interpreter-level probes built on sys.monitoring (CPython 3.12): deterministic step counter,
call/coverage probes on chosen functions, reduction trace of the grammar actions, yield injector.

Probes are *witnesses* (what the workload reached) except the step counter, whose budget is a verdict
for the termination clauses of C01/C17.  A probe whose target function no longer exists reports
`missing` instead of raising, so a refactoring degrades evidence but never raises an alarm.
"""
import collections
import datetime
import os
import random
import sys
import threading
import time

from . import env

mon = sys.monitoring
E = mon.events

TOOL_REACH = 1
TOOL_STEPS = 3
TOOL_CALLS = 4
TOOL_YIELD = 5


def _claim(tool, name):
    if mon.get_tool(tool) is None:
        mon.use_tool_id(tool, name)


class StepBudgetExceeded(BaseException):
    def __init__(self, steps, where):
        BaseException.__init__(self, 'step budget exceeded after %d line events at %s' % (steps, where))
        self.steps, self.where = steps, where


class StepCounter(object):
    """Counts LINE events inside hotxlfp/ply code while armed; raises StepBudgetExceeded past the budget."""

    def __init__(self):
        self.armed = False
        self.steps = 0
        self.budget = 0
        self.active = False
        self.roots = None

    def _roots(self):
        if self.roots is None:
            import ply
            self.roots = (os.path.join(env.REPO, 'hotxlfp') + os.sep, os.path.dirname(os.path.realpath(ply.__file__)) + os.sep)
        return self.roots

    def _line(self, code, line):
        fn = code.co_filename
        if not fn.startswith(self._roots()):
            return mon.DISABLE
        if self.armed:
            self.steps += 1
            if self.steps > self.budget:
                self.armed = False
                raise StepBudgetExceeded(self.steps, '%s:%d (%s)' % (os.path.basename(fn), line, code.co_name))
        return None

    def start(self):
        _claim(TOOL_STEPS, 'hxmon-steps')
        mon.register_callback(TOOL_STEPS, E.LINE, self._line)
        mon.set_events(TOOL_STEPS, E.LINE)
        self.active = True

    def stop(self):
        if self.active:
            mon.set_events(TOOL_STEPS, 0)
            mon.register_callback(TOOL_STEPS, E.LINE, None)
            mon.free_tool_id(TOOL_STEPS)
            self.active = False

    def run(self, fn, budget):
        """fn() with the counter armed.  Returns (value, steps, exceeded: StepBudgetExceeded|None)."""
        self.steps, self.budget, self.armed = 0, budget, True
        try:
            v = fn()
            return v, self.steps, None
        except StepBudgetExceeded as x:
            return None, self.steps, x
        finally:
            self.armed = False


def budget_for(formula, host_leaves=0):
    return 20000 + 400 * len(formula) + 200 * host_leaves


class CallProbe(object):
    """PY_START on selected code objects; handler(name, frame) sees the bound arguments."""

    def __init__(self):
        self.handlers = {}
        self.missing = []
        self.active = False

    def add(self, func, handler, name=None):
        f = func
        for _ in range(10):
            inner = getattr(f, '__hxmon_wrapped__', None) or getattr(f, '__wrapped__', None)
            if inner is None:
                break
            f = inner
        code = getattr(f, '__code__', None)
        if code is None:
            self.missing.append(name or repr(func))
            return
        self.handlers[code] = (name or code.co_name, handler)

    def _start(self, code, offset):
        h = self.handlers.get(code)
        if h is not None:
            h[1](h[0], sys._getframe(1))

    def start(self):
        _claim(TOOL_CALLS, 'hxmon-calls')
        mon.register_callback(TOOL_CALLS, E.PY_START, self._start)
        for code in self.handlers:
            mon.set_local_events(TOOL_CALLS, code, E.PY_START)
        self.active = True

    def stop(self):
        if self.active:
            for code in self.handlers:
                mon.set_local_events(TOOL_CALLS, code, 0)
            mon.register_callback(TOOL_CALLS, E.PY_START, None)
            mon.free_tool_id(TOOL_CALLS)
            self.active = False


class ReductionTrace(CallProbe):
    """Counts executions of the grammar actions (p_* methods of FormulaParser)."""
    OPERATOR_ACTIONS = ('p_expression_arithmetic_operator', 'p_expression_logical_operator', 'p_expression_uminus')

    def __init__(self):
        CallProbe.__init__(self)
        self.counts = collections.Counter()
        self.totals = collections.Counter()
        env.load()
        from hotxlfp.grammarparser import parser as gp
        for name in dir(gp.FormulaParser):
            if name.startswith('p_') and name != 'p_error':
                self.add(getattr(gp.FormulaParser, name), self._hit, name)
        for name in self.OPERATOR_ACTIONS:
            if not hasattr(gp.FormulaParser, name):
                self.missing.append(name)
        self.available = not self.missing

    def _hit(self, name, frame):
        self.counts[name] += 1
        self.totals[name] += 1

    def reset(self):
        self.counts.clear()

    def operator_reductions(self):
        return sum(self.counts[n] for n in self.OPERATOR_ACTIONS)


class YieldInjector(object):
    """LINE callback that, in threads that opted in, sleeps(0) with probability p between two statements of
    ply/hotxlfp code, forcing a GIL hand-off there.  Per-thread state only."""

    def __init__(self, p, seed):
        self.p = p
        self.seed = seed
        self.local = threading.local()
        self.roots = None
        self.active = False
        self.injected = collections.Counter()

    def enroll(self, tag):
        self.local.rnd = random.Random('%s:%s' % (self.seed, tag))
        self.local.n = 0

    def _line(self, code, line):
        if self.roots is None:
            import ply
            self.roots = (os.path.join(env.REPO, 'hotxlfp') + os.sep, os.path.dirname(os.path.realpath(ply.__file__)) + os.sep)
        if not code.co_filename.startswith(self.roots):
            return mon.DISABLE
        rnd = getattr(self.local, 'rnd', None)
        if rnd is not None and rnd.random() < self.p:
            self.local.n += 1
            time.sleep(0)
        return None

    def start(self):
        _claim(TOOL_YIELD, 'hxmon-yield')
        mon.register_callback(TOOL_YIELD, E.LINE, self._line)
        mon.set_events(TOOL_YIELD, E.LINE)
        self.active = True

    def stop(self):
        if self.active:
            mon.set_events(TOOL_YIELD, 0)
            mon.register_callback(TOOL_YIELD, E.LINE, None)
            mon.free_tool_id(TOOL_YIELD)
            self.active = False



class Reach(object):
    """Which lines of hotxlfp the workload of this process executed (a witness of reach, never a verdict).

    One LINE callback per location: it records (file, line) for files under REPO/hotxlfp and returns DISABLE, so every
    location costs one event for the life of the process."""

    def __init__(self):
        self.lines = set()
        self.root = os.path.join(env.REPO, 'hotxlfp') + os.sep
        self.active = False

    def _line(self, code, line):
        fn = code.co_filename
        if fn.startswith(self.root):
            self.lines.add((fn[len(self.root):], line))
        return mon.DISABLE

    def start(self):
        try:
            _claim(TOOL_REACH, 'hxmon-reach')
            mon.register_callback(TOOL_REACH, E.LINE, self._line)
            mon.set_events(TOOL_REACH, E.LINE)
            self.active = True
        except Exception:
            self.active = False
        return self

    def stop(self):
        if self.active:
            mon.set_events(TOOL_REACH, 0)
            mon.register_callback(TOOL_REACH, E.LINE, None)
            mon.free_tool_id(TOOL_REACH)
            self.active = False
        out = {}
        for f, l in self.lines:
            out.setdefault(f, []).append(l)
        return {f: sorted(v) for f, v in out.items()}


def executable_lines(path):
    """line numbers that carry code in a source file (from the compiled code objects; the `def`/`class`/decorator lines run at
    import and count too)"""
    with open(path) as f:
        src = f.read()
    todo, lines = [compile(src, path, 'exec')], set()
    while todo:
        co = todo.pop()
        for _, _, ln in co.co_lines():
            if ln is not None and ln > 0:
                lines.add(ln)
        todo.extend(c for c in co.co_consts if hasattr(c, 'co_lines'))
    return lines


def ranges(nums):
    out, start, prev = [], None, None
    for n in sorted(nums):
        if start is None:
            start = prev = n
        elif n == prev + 1:
            prev = n
        else:
            out.append('%d' % start if start == prev else '%d-%d' % (start, prev))
            start = prev = n
    if start is not None:
        out.append('%d' % start if start == prev else '%d-%d' % (start, prev))
    return out


TOOL_AMBIENT = 2


class AmbientReads(object):
    """Which reads of the clock the code under test makes (CALL events, global while started).

    An evaluation can only depend on the time of day if something reads it: every call of datetime.now/utcnow/today, date.today,
    time.time/time_ns, and of time.localtime/gmtime/ctime/strftime WITHOUT a time argument, made from a frame of the library under
    test or of one of its dependencies (dateutil, ply) is recorded with the calling location.  Calls made by the harness itself
    (frames under /verif) are not."""

    CLASSMETHODS = ('now', 'utcnow', 'today')
    PLAIN = ('time', 'time_ns')
    DEFAULTING = ('localtime', 'gmtime', 'ctime', 'strftime', 'asctime')

    def __init__(self):
        self.hits = []
        self.active = False
        self.skip = os.path.join(env.VERIF, 'hxmon') + os.sep

    def _call(self, code, offset, func, arg0):
        try:
            self._see(code, func, arg0)
        except Exception:           # a spy never changes what it watches (hostile callables have hostile attributes)
            pass

    def _see(self, code, func, arg0):
        name = getattr(func, '__name__', None)
        if name is None:
            return
        what = None
        if name in self.CLASSMETHODS:
            owner = getattr(func, '__self__', None)
            if isinstance(owner, type) and issubclass(owner, datetime.date):
                what = owner.__name__ + '.' + name
        elif name in self.PLAIN and getattr(func, '__module__', None) == 'time':
            what = 'time.' + name
        elif name in self.DEFAULTING and getattr(func, '__module__', None) == 'time':
            if arg0 is mon.MISSING or (name == 'strftime'):
                what = 'time.%s()' % name
        if what is None:
            return
        fn = code.co_filename
        if fn.startswith(self.skip) or fn.startswith('<'):
            return
        self.hits.append((what, os.path.basename(os.path.dirname(fn)) + '/' + os.path.basename(fn), code.co_name))

    def start(self):
        try:
            _claim(TOOL_AMBIENT, 'hxmon-ambient-reads')
            mon.register_callback(TOOL_AMBIENT, E.CALL, self._call)
            mon.set_events(TOOL_AMBIENT, E.CALL)
            self.active = True
        except Exception:
            self.active = False
        return self

    def reset(self):
        del self.hits[:]

    def stop(self):
        if self.active:
            mon.set_events(TOOL_AMBIENT, 0)
            mon.register_callback(TOOL_AMBIENT, E.CALL, None)
            mon.free_tool_id(TOOL_AMBIENT)
            self.active = False
