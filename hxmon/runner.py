"""Tiers, seeds, sharding over subprocess workers, watchdogs, three-valued verdict, evidence, replay files."""
import collections
import hashlib
import json
import os
import pickle
import random
import signal
import subprocess
import sys
import time
import traceback

from . import env, findings
from .oracle import show

MAX_WITNESS_PER_KEY = 3


def h64(obj):
    if not isinstance(obj, (bytes, str)):
        obj = repr(obj)
    if isinstance(obj, str):
        obj = obj.encode('utf-8', 'surrogatepass')
    return int.from_bytes(hashlib.blake2b(obj, digest_size=8).digest(), 'big')


class WatchdogTimeout(BaseException):
    pass


class Rec(object):
    """Per-shard recorder: everything a workload observes goes through here."""

    def __init__(self, check_id, spec):
        self.check_id = check_id
        self.spec = spec
        self.evaluations = 0
        self.counts = collections.Counter()
        self.cover = collections.defaultdict(set)
        self.samples = []
        self._nsample = 0
        self._srnd = random.Random('sample:%s' % json.dumps(spec, sort_keys=True, default=str))
        self.nontrivial = set()
        self.violations = collections.OrderedDict()   # key -> [witness,...]
        self.viol_counts = collections.Counter()
        self.foreign = collections.Counter()          # alarms of monitors that belong to other properties
        self.inconclusive = []
        self.series = {}

    # ---- cases
    def case(self, n=1):
        self.evaluations += n

    def nt(self, obj):
        """Register one distinct non-trivial case (rule stated by the check)."""
        self.nontrivial.add(h64(obj))

    def sample(self, obj, k=12):
        self._nsample += 1
        if len(self.samples) < k:
            self.samples.append(obj)
        else:
            j = self._srnd.randrange(self._nsample)
            if j < k:
                self.samples[j] = obj

    def count(self, name, n=1):
        self.counts[name] += n

    def cov(self, group, cell):
        self.cover[group].add(cell)

    # ---- verdicts
    def violation(self, key, **witness):
        self.viol_counts[key] += 1
        lst = self.violations.setdefault(key, [])
        if len(lst) < MAX_WITNESS_PER_KEY:
            w = {k: (v if isinstance(v, (int, float, str, bool, type(None))) else show(v, 400)) for k, v in witness.items()}
            w['shard'] = self.spec
            lst.append(w)

    def foreign_alarm(self, prop, what):
        self.foreign['%s:%s' % (prop, what)] += 1

    def inconcl(self, reason):
        if len(self.inconclusive) < 50:
            self.inconclusive.append(reason)

    class _Watch(object):
        def __init__(self, rec, seconds, what):
            self.rec, self.seconds, self.what = rec, seconds, what

        def _fire(self, *a):
            raise WatchdogTimeout(self.what)

        def __enter__(self):
            self.old = signal.signal(signal.SIGALRM, self._fire)
            signal.setitimer(signal.ITIMER_REAL, self.seconds)
            return self

        def __exit__(self, et, ev, tb):
            signal.setitimer(signal.ITIMER_REAL, 0)
            signal.signal(signal.SIGALRM, self.old)
            if et is WatchdogTimeout:
                self.rec.inconcl('watchdog %ss fired: %s' % (self.seconds, show(self.what, 160)))
                self.rec.count('watchdog_fired')
                return True
            return False

    def watch(self, seconds, what=''):
        """Wall-clock watchdog: its firing is *inconclusive*, never a violation."""
        return Rec._Watch(self, seconds, what)

    def dump(self):
        return {
            'evaluations': self.evaluations, 'counts': dict(self.counts),
            'cover': {k: sorted(v, key=repr) for k, v in self.cover.items()},
            'samples': self.samples, 'nontrivial': self.nontrivial,
            'violations': dict(self.violations), 'viol_counts': dict(self.viol_counts),
            'foreign': dict(self.foreign), 'inconclusive': self.inconclusive, 'series': self.series,
        }


class BaseCheck(object):
    ID = ''
    TITLE = ''
    LEVEL = 'exploration'
    RULE = ''
    TECHNIQUE = ''
    ASSUMPTIONS = ()
    SHARD_TIMEOUT = {'quick': 600, 'thorough': 5400}

    def plan(self, tier, seed):
        raise NotImplementedError

    def run(self, spec, rec):
        raise NotImplementedError

    def judge(self, merged, tier):
        """Return a list of reasons why the run is inconclusive (deciding monitor saw nothing...)."""
        return []

    def cross(self, merged):
        """Verdicts that need the observations of several shards (separate processes) side by side.
        Returns a list of (mechanism key, witness dict)."""
        return []

    def extra(self, merged):
        return {}

    def rng(self, spec, tag=''):
        return random.Random('%s:%s:%s' % (self.ID, json.dumps(spec, sort_keys=True, default=str), tag))


def load_check(check_id):
    import importlib
    mod = importlib.import_module('hxmon.checks.%s' % check_id.lower())
    return mod.Check()


# ------------------------------------------------------------------ worker side

def worker_main(argv):
    check_id, spec_path, out_path = argv
    import resource
    with open(spec_path) as f:
        spec = json.load(f)
    try:
        # address space, not memory: a shard with hundreds of threads needs room for their (untouched) malloc arenas and stacks
        gb = int(spec.get('address_space_gb', 4)) if isinstance(spec, dict) else 4
        resource.setrlimit(resource.RLIMIT_AS, (gb << 30, gb << 30))
    except Exception:
        pass
    if isinstance(spec, dict) and spec.get('tz'):
        # a shard may ask to run in another process time zone (POSIX rule string: no zone database needed); nothing evaluated may depend on it
        import time as _time
        os.environ['TZ'] = spec['tz']
        _time.tzset()
    if isinstance(spec, dict) and spec.get('decimal_context'):
        # a shard may ask to run under a host-modified decimal context (few digits, another rounding mode, the Inexact trap): the ambient
        # context belongs to the host and nothing evaluated may depend on it
        import decimal as _decimal
        c = _decimal.getcontext()
        c.prec = int(spec['decimal_context'].get('prec', c.prec))
        if spec['decimal_context'].get('rounding'):
            c.rounding = getattr(_decimal, spec['decimal_context']['rounding'])
        if spec['decimal_context'].get('trap_inexact'):
            c.traps[_decimal.Inexact] = True
    if isinstance(spec, dict) and spec.get('int_max_str_digits') is not None:
        # ... or with the interpreter's limit on int <-> text conversion lifted (0) by the host
        sys.set_int_max_str_digits(int(spec['int_max_str_digits']))
    rec = Rec(check_id, spec)
    if isinstance(spec, dict) and spec.get('ambient'):
        rec.cov('shards_rerun_under_other_ambient_state', spec['ambient'])
    reach = None
    try:
        from . import probe
        reach = probe.Reach().start()
        env.load()
        from . import contracts
        contracts.install(rec)
        check = load_check(check_id)
        if isinstance(spec, dict) and spec.get('warnings'):
            # ... or with warnings turned into exceptions (python -W error), set once everything is imported: code that runs clean
            # by default must not start failing because it warns
            import warnings as _warnings
            _warnings.simplefilter(spec['warnings'])
        check.run(spec, rec)
        contracts.harvest(rec)
    except BaseException:
        rec.inconcl('harness crashed in shard %s: %s' % (show(spec, 120), traceback.format_exc()[-1500:]))
    d = rec.dump()
    if isinstance(spec, dict) and spec.get('ambient'):
        # a re-run is extra: its counters are kept apart, so that the totals a check's judge() looks at (sweeps that must be complete,
        # exactly once) are those of the planned shards
        d['counts'] = {'under_other_ambient_state.' + k: v for k, v in d['counts'].items()}
    try:
        d['reach'] = reach.stop() if reach is not None else {}
    except Exception:
        d['reach'] = {}
    try:
        blob = pickle.dumps(d)
    except Exception:
        # something recorded as a coverage cell or a sample cannot be pickled (an instance of a class made on the fly): keep its text
        blob = pickle.dumps(_plain(d))
    with open(out_path, 'wb') as f:
        f.write(blob)
    return 0


def _plain(x, depth=0):
    if isinstance(x, (int, float, str, bool, type(None), bytes)) and type(x) in (int, float, str, bool, type(None), bytes):
        return x
    if depth > 8:
        return show(x, 200)
    if isinstance(x, dict):
        return {(_plain(k, depth + 1) if not isinstance(k, str) else k): _plain(v, depth + 1) for k, v in x.items()}
    if isinstance(x, (list, tuple)) and type(x) in (list, tuple):
        return type(x)(_plain(v, depth + 1) for v in x)
    if isinstance(x, (set, frozenset)) and type(x) in (set, frozenset):
        return set(_plain(v, depth + 1) if isinstance(_plain(v, depth + 1), (int, float, str, bool, type(None), bytes, tuple)) else show(v, 200) for v in x)
    return show(x, 200)


# ------------------------------------------------------------------ parent side

def _merge(dumps):
    m = {'evaluations': 0, 'counts': collections.Counter(), 'cover': collections.defaultdict(set), 'samples': [],
         'nontrivial': set(), 'violations': collections.OrderedDict(), 'viol_counts': collections.Counter(),
         'foreign': collections.Counter(), 'inconclusive': [], 'series': {}, 'reach': collections.defaultdict(set)}
    for d in dumps:
        for f, ls in (d.get('reach') or {}).items():
            m['reach'][f].update(ls)
        m['evaluations'] += d['evaluations']
        m['counts'].update(d['counts'])
        for k, v in d['cover'].items():
            m['cover'][k].update(v)
        m['samples'].extend(d['samples'])
        m['nontrivial'] |= d['nontrivial']
        for k, ws in d['violations'].items():
            lst = m['violations'].setdefault(k, [])
            lst.extend(ws[:max(0, MAX_WITNESS_PER_KEY - len(lst))])
        m['viol_counts'].update(d['viol_counts'])
        m['foreign'].update(d['foreign'])
        m['inconclusive'].extend(d['inconclusive'])
        m['series'].update(d['series'])
    return m


def run_shards(check, specs, tier, jobs, inline=False):
    os.makedirs(env.WORK, exist_ok=True)
    run_dir = os.path.join(env.WORK, '%s.%d' % (check.ID, os.getpid()))
    os.makedirs(run_dir, exist_ok=True)
    dumps, pending, running = [], list(enumerate(specs)), []
    lost = []
    timeout = check.SHARD_TIMEOUT[tier]
    try:
        if inline:
            from . import contracts
            for i, spec in pending:
                rec = Rec(check.ID, spec)
                env.load()
                contracts.install(rec)
                try:
                    check.run(spec, rec)
                    contracts.harvest(rec)
                except BaseException:
                    rec.inconcl('harness crashed in shard %s: %s' % (show(spec, 120), traceback.format_exc()[-1500:]))
                dumps.append(rec.dump())
            return dumps, lost
        while pending or running:
            while pending and len(running) < jobs:
                i, spec = pending.pop(0)
                sp = os.path.join(run_dir, 'spec%d.json' % i)
                op = os.path.join(run_dir, 'out%d.pkl' % i)
                with open(sp, 'w') as f:
                    json.dump(spec, f)
                e = dict(os.environ)
                e['PYTHONDONTWRITEBYTECODE'] = '1'
                e['PYTHONHASHSEED'] = str(spec.get('hashseed', 0))      # ambient state a shard may ask for, like TZ and the decimal context
                e['PYTHONPATH'] = env.VERIF
                pr = subprocess.Popen([sys.executable, '-m', 'hxmon.worker', check.ID, sp, op], env=e, cwd=env.VERIF,
                                      stdout=subprocess.DEVNULL, stderr=open(os.path.join(run_dir, 'err%d.txt' % i), 'w'))
                running.append((pr, i, spec, op, time.time()))
            time.sleep(0.02)
            still = []
            for pr, i, spec, op, t0 in running:
                rc = pr.poll()
                if rc is None:
                    if time.time() - t0 > timeout:
                        pr.kill()
                        pr.wait()
                        lost.append('shard %d (%s) exceeded the %ds wall watchdog' % (i, show(spec, 100), timeout))
                    else:
                        still.append((pr, i, spec, op, t0))
                    continue
                loaded = False
                if os.path.exists(op):
                    try:
                        with open(op, 'rb') as f:
                            dumps.append(pickle.load(f))
                        loaded = True
                    except Exception as e:
                        lost.append('shard %d (%s) left an unreadable result: %r' % (i, show(spec, 100), e))
                        continue
                if not loaded:
                    err = ''
                    try:
                        err = open(os.path.join(run_dir, 'err%d.txt' % i)).read()[-800:]
                    except Exception:
                        pass
                    lost.append('shard %d (%s) died rc=%s: %s' % (i, show(spec, 100), rc, err))
            running = still
        return dumps, lost
    finally:
        for pr, *_ in running:
            try:
                pr.kill()
            except Exception:
                pass
        import shutil
        shutil.rmtree(run_dir, ignore_errors=True)


def write_replay(check_id, key, witness, tier, seed):
    d = os.path.join(env.VERIF, 'replays', check_id)
    os.makedirs(d, exist_ok=True)
    body = {'property_id': check_id, 'key': key, 'tier': tier, 'seed': seed, 'witness': witness}
    txt = json.dumps(body, indent=1, sort_keys=True, default=str)
    path = os.path.join(d, hashlib.sha1(txt.encode()).hexdigest()[:16] + '.json')
    with open(path, 'w') as f:
        f.write(txt)
    return path


def code_reached(reach):
    """lines of hotxlfp's own source executed by this check's workload (sys.monitoring LINE witness in every worker), per file, with
    the executable lines that were never reached - the places where a change would be invisible to this check"""
    from . import probe
    root = os.path.join(env.REPO, 'hotxlfp')
    out, tot_x, tot_n = {}, 0, 0
    for dirpath, _, files in os.walk(root):
        for fn in sorted(files):
            if not fn.endswith('.py') or fn == 'parsetab.py':
                continue
            rel = os.path.relpath(os.path.join(dirpath, fn), root)
            try:
                exe = probe.executable_lines(os.path.join(dirpath, fn))
            except Exception:
                continue
            hit = set(reach.get(rel, ())) & exe
            tot_x += len(hit)
            tot_n += len(exe)
            if exe:
                out[rel] = {'executed': len(hit), 'executable': len(exe), 'never_reached': probe.ranges(exe - hit)}
    out['_total'] = {'executed': tot_x, 'executable': tot_n}
    return out


def _jsonable(x):
    try:
        json.dumps(x)
        return x
    except Exception:
        return show(x, 300)


# Ambient state of the process that belongs to the host and that nothing evaluated may depend on.  Besides the shards a check plans
# for itself (C13/C14/C06/C07 time zones, C05/C06 decimal contexts, C02 hash seeds), every check re-runs a few of its own shards - chosen
# by the seed - under each of these, with its oracles unchanged.
AMBIENTS = [('time-zone', {'tz': 'NZST-12NZDT,M9.5.0,M4.1.0/3'}),
            ('hash-seed', {'hashseed': 987654321}),
            ('warnings-as-errors', {'warnings': 'error'}),
            ('int-text-limit-lifted', {'int_max_str_digits': 0}),
            ('decimal-context', {'decimal_context': {'prec': 3, 'rounding': 'ROUND_UP', 'trap_inexact': True}})]


def ambient_copies(check, specs, tier, seed):
    out = []
    skip = getattr(check, 'NO_AMBIENT', ())
    try:
        seed_n = int(seed)
    except Exception:
        seed_n = sum(map(ord, str(seed)))
    for j, (name, amb) in enumerate(AMBIENTS):
        cands = [sp for sp in specs if isinstance(sp, dict) and sp.get('campaign') not in skip and (sp.get('campaign'), name) not in skip
                 and not any(k in sp for k in amb) and not sp.get('ambient')]
        if not cands:
            continue
        # one shard of EVERY campaign (which one: by the seed), so that whatever a campaign reaches it reaches once under each ambient
        by_campaign = collections.OrderedDict()
        for sp in cands:
            by_campaign.setdefault(sp.get('campaign'), []).append(sp)
        for camp, lst in by_campaign.items():
            for r in range(1 if tier == 'quick' else 2):
                sp = dict(lst[(seed_n * 31 + j * 7 + r * 13 + sum(map(ord, check.ID))) % len(lst)])
                sp.update(amb)
                sp['ambient'] = name
                out.append(sp)
    return out


def main_check(check_id, tier, seed, jobs=None, replay=None, inline=False, only=None):
    t0 = time.time()
    check = load_check(check_id)
    warm_msg = env.warm()
    if replay:
        with open(replay) as f:
            body = json.load(f)
        specs = [body['witness']['shard']]
        tier = body.get('tier', tier)
        want_key = body['key']
        if isinstance(specs[0], dict) and specs[0].get('cross'):
            specs = [sp for sp in check.plan(tier, body.get('seed', seed)) if sp.get('campaign') == specs[0].get('campaign')]
    else:
        specs = check.plan(tier, seed)
        if not inline:
            specs = specs + ambient_copies(check, specs, tier, seed)
        if only:
            specs = [s for s in specs if s.get('campaign') in only]
        want_key = None
    jobs = jobs or min(16, os.cpu_count() or 4, max(1, len(specs)))
    dumps, lost = run_shards(check, specs, tier, jobs, inline=inline)
    m = _merge(dumps)
    for key, w in (check.cross(m) or []):
        m['viol_counts'][key] += 1
        lst = m['violations'].setdefault(key, [])
        if len(lst) < MAX_WITNESS_PER_KEY:
            lst.append({k: (v if isinstance(v, (int, float, str, bool, type(None), dict)) else show(v, 400)) for k, v in w.items()})
    known = findings.load_open(check.ID)
    inconcl = list(lost) + m['inconclusive']
    if not replay and not only:
        inconcl += check.judge(m, tier) or []
    if m['evaluations'] == 0 and not replay:
        inconcl.append('no case was evaluated')

    out = []
    new_keys, known_keys = [], []
    for key, ws in m['violations'].items():
        if want_key is not None and key != want_key:
            continue
        (known_keys if key in known else new_keys).append(key)
    for key in known_keys:
        w = m['violations'][key][0]
        out.append('KNOWN-FINDING: property=%s key=%s seen=%d e.g. %s' % (check.ID, key, m['viol_counts'][key], show({k: v for k, v in w.items() if k != 'shard'}, 300)))
    if not replay:
        for key in known:
            if key not in m['violations']:
                out.append('NOTE: open known finding %s was not observed in this run (its sentinel passed)' % key)
    replays = []
    for key in new_keys[:20]:
        w = m['violations'][key][0]
        path = write_replay(check.ID, key, w, tier, seed)
        replays.append(path)
        out.append('VIOLATION property=%s replay=%s' % (check.ID, path))
        out.append('  key=%s count=%d witness=%s' % (key, m['viol_counts'][key], show({k: v for k, v in w.items() if k != 'shard'}, 600)))
    if m['foreign']:
        out.append('NOTE: monitors of other properties fired during this workload (not part of this verdict): %s' % dict(m['foreign']))

    wall = time.time() - t0
    nviol = sum(m['viol_counts'][k] for k in new_keys)
    status = 'VIOLATED' if new_keys else ('INCONCLUSIVE' if inconcl else 'HELD')
    if not replay and not only:
        cover = {
            'evaluations': int(m['evaluations']),
            'distinct_nontrivial': len(m['nontrivial']),
            'rule': check.RULE,
            'samples': [_jsonable(s) for s in m['samples'][:12]] or ['(none)'],
            'verdict': status,
            'shards': len(specs), 'shards_lost': len(lost),
            'counts': {k: int(v) for k, v in sorted(m['counts'].items())},
            'cells_reached': {k: len(v) for k, v in sorted(m['cover'].items())},
            'cells': {k: [_jsonable(c) for c in sorted(v, key=repr)[:80]] for k, v in sorted(m['cover'].items())},
            'violation_keys': {k: int(v) for k, v in m['viol_counts'].items()},
            'known_finding_keys_observed': known_keys,
            'foreign_alarms': dict(m['foreign']),
            'inconclusive_reasons': inconcl[:20],
            # (a series that is a whole table of outcomes - C02's per-order results - is summarised by size and digest)
            'series': {k: ({'entries': len(v.get('outcomes', ())), 'sha1': hashlib.sha1(json.dumps(v, sort_keys=True, default=str).encode()).hexdigest()}
                           if isinstance(v, dict) and 'outcomes' in v else v) for k, v in m['series'].items()},
        }
        cover['code_reached'] = code_reached(m['reach'])
        cover.update(check.extra(m) or {})
        ev = {'property_id': check.ID, 'tier': tier, 'seed': int(seed), 'level': check.LEVEL, 'coverage': cover,
              'assumptions': list(check.ASSUMPTIONS), 'wall_s': round(wall, 2), 'violations': int(nviol)}
        if not os.environ.get('HXMON_NO_EVIDENCE'):
            write_evidence(check.ID, ev)
    for line in out:
        print(line)
    if status == 'INCONCLUSIVE':
        for r in inconcl[:10]:
            print('INCONCLUSIVE property=%s reason=%s' % (check.ID, r.replace('\n', ' | ')[:1200]))
    print('%s %s tier=%s seed=%s: %s on %d evaluations (%d distinct non-trivial), %d shards, %.1fs'
          % (check.ID, 'replay' if replay else 'check', tier, seed, status, m['evaluations'], len(m['nontrivial']), len(specs), wall))
    return 1 if new_keys else (2 if inconcl else 0)


def write_evidence(check_id, ev):
    d = os.path.join(env.VERIF, 'evidence')
    os.makedirs(d, exist_ok=True)
    path = os.path.join(d, '%s.json' % check_id)
    try:
        import jsonschema
        sp = os.path.join(env.VERIF, 'schemas', 'EVIDENCE.schema.json')
        with open(sp) as f:
            jsonschema.validate(ev, json.load(f))
    except ImportError:
        pass
    with open(path, 'w') as f:
        json.dump(ev, f, indent=1, sort_keys=True, default=str)
        f.write('\n')
