"""Reference model for C06: arithmetic through the implicit conversion table.  No import of hotxlfp.

The only outside knowledge used: which text "spells a date" is decided by dateutil (trusted base, passed in
as `is_date_text`), exactly as DESIGN 3.C06 G states.
"""
import datetime
from fractions import Fraction as Fr

from ..oracle import serial_of, date_of_serial

D = datetime.datetime
MAXS = 2958465


class Skip(Exception):
    """outside what the statement claims (e.g. date result in January/February 1900)"""


def spelled_number(s):
    if '_' in s:
        return None             # python's digit grouping is not a spreadsheet number
    try:
        return Fr(int(s))
    except ValueError:
        pass
    try:
        f = float(s)
    except ValueError:
        return None
    if f != f or f in (float('inf'), float('-inf')):
        return None             # "nan", "inf", "infinity", "1e999": text that spells no number
    return Fr(f)


def value(x, parse_date_text):
    """('num'|'blank'|'date', Fraction) or ('err', code)"""
    if isinstance(x, bool):
        return ('num', Fr(int(x)))
    if isinstance(x, (int, float)):
        return ('num', Fr(x))
    if x is None:
        return ('blank', Fr(0))
    if isinstance(x, D):
        return ('date', serial_of(x))
    if isinstance(x, str):
        n = spelled_number(x)
        if n is not None:
            return ('num', n)
        dt = parse_date_text(x)
        if dt is not None:
            if dt < D(1900, 3, 1):
                raise Skip('date text before March 1900')
            return ('date', serial_of(dt))
        return ('err', '#VALUE!')
    raise Skip('unsupported operand')


def scalar(op, a, b, parse_date_text):
    """model outcome: ('err', code) | ('num', Fraction) | ('date', datetime)"""
    ka, va = value(a, parse_date_text)
    kb, vb = value(b, parse_date_text)
    if ka == 'err':
        return ('err', va)
    if kb == 'err':
        return ('err', vb)
    if op == '/' and vb == 0:
        return ('err', '#DIV/0!')
    r = {'+': lambda: va + vb, '-': lambda: va - vb, '*': lambda: va * vb, '/': lambda: va / vb}[op]()
    isdate = (ka == 'date') != (kb == 'date')
    if isdate and op == '/' and ka == 'blank':
        isdate = False              # blank / date is a number (pinned by the repository's own tests)
    if isdate:
        if r < 0:
            return ('err', '#NUM!')
        if r < 61 or r >= MAXS + 1:
            raise Skip('date result outside 1900-03-01..9999-12-31')
        return ('date', date_of_serial(r))
    return ('num', r)


def combine(op, a, b, parse_date_text):
    """arrays: element-wise with scalars and equal-length arrays (recursively), #VALUE! on length mismatch"""
    la, lb = isinstance(a, list), isinstance(b, list)
    if not la and not lb:
        return scalar(op, a, b, parse_date_text)
    if la and len(a) == 1 and not (lb and len(b) == 1):
        raise Skip('one-element array operand (broadcast like a scalar, not claimed)')
    if lb and len(b) == 1:
        raise Skip('one-element array operand (broadcast like a scalar, not claimed)')
    if la and lb:
        if len(a) != len(b):
            return ('err', '#VALUE!')
        return ('arr', [combine(op, x, y, parse_date_text) for x, y in zip(a, b)])
    if la:
        if len(a) == 0:
            raise Skip('empty array')
        return ('arr', [combine(op, x, b, parse_date_text) for x in a])
    if len(b) == 0:
        raise Skip('empty array')
    return ('arr', [combine(op, a, y, parse_date_text) for y in b])


def spelled_number_safe(s):
    try:
        return spelled_number(s) is not None
    except Skip:
        return True
