"""Exact evaluation of generated expression trees, with a forward bound on the floating-point error of
the implementation's own evaluation order.  No import of hotxlfp.

Tree nodes (tuples):
  ('int', n)                         integer literal / integer-valued leaf (n >= 0 for literals)
  ('dec', text)                      decimal literal, value = the double nearest to the text
  ('pow', a, b) ('pct', n)           literal atoms a^b and n% (C05 forms)
  ('str', s)                         quoted text
  ('var', name, value) ('cell', label, value)   host-supplied leaf with its numeric value (int or float)
  ('call', fname, [args])            SUM MAX MIN PRODUCT ABS
  ('neg', t) ('bin', op, l, r) ('cmp', op, l, r) ('amp', [operands])
"""
from fractions import Fraction as Fr

U = Fr(1, 2 ** 52)        # 2 * unit round-off: generous per-operation bound


class Discard(Exception):
    """The tree is outside the scope of the statement or numerically ill-conditioned: not judged."""


class V(object):
    __slots__ = ('kind', 'v', 'err')

    def __init__(self, kind, v, err=Fr(0)):
        self.kind, self.v, self.err = kind, v, err    # kind: int | float | bool | text

    def __repr__(self):
        return 'V(%s,%s)' % (self.kind, float(self.v) if self.kind in ('int', 'float') else self.v)


def _numeric(x):
    """view a value as a number for arithmetic (TRUE/FALSE act as 1/0)"""
    if x.kind == 'bool':
        return V('int', Fr(int(x.v)))
    if x.kind == 'text':
        raise Discard('text under arithmetic')
    return x


def _float_of(fr):
    try:
        return float(fr)
    except OverflowError:
        raise Discard('overflow')


def _mk(kind, v, err):
    if kind == 'float':
        if abs(v) > Fr(10) ** 300:
            raise Discard('overflow')
        err = err + U * abs(v)
    return V(kind, v, err)


def arith(op, a, b):
    a, b = _numeric(a), _numeric(b)
    if a.kind != b.kind:      # an int meets a float: the int is converted first (inexact beyond 2**53)
        if a.kind == 'int' and abs(a.v) >= 2 ** 53:
            a = V('float', a.v, a.err + U * abs(a.v))
        if b.kind == 'int' and abs(b.v) >= 2 ** 53:
            b = V('float', b.v, b.err + U * abs(b.v))
    kind = 'int' if (a.kind == 'int' and b.kind == 'int' and op != '/') else 'float'
    if op == '+':
        return _mk(kind, a.v + b.v, a.err + b.err)
    if op == '-':
        return _mk(kind, a.v - b.v, a.err + b.err)
    if op == '*':
        return _mk(kind, a.v * b.v, abs(a.v) * b.err + abs(b.v) * a.err + a.err * b.err)
    if op == '/':
        if abs(b.v) <= b.err * 4:
            raise Discard('zero or unstable divisor')
        q = a.v / b.v
        return _mk('float', q, (a.err + abs(q) * b.err) / (abs(b.v) - b.err))
    raise ValueError(op)


CMP = {'<': lambda a, b: a < b, '>': lambda a, b: a > b, '=': lambda a, b: a == b,
       '<=': lambda a, b: a <= b, '>=': lambda a, b: a >= b, '<>': lambda a, b: a != b}


def compare(op, a, b):
    if a.kind == 'text' and b.kind == 'text':
        return V('bool', CMP[op](a.v, b.v))
    if a.kind == 'text' or b.kind == 'text':
        other = b if a.kind == 'text' else a
        if other.kind == 'bool':
            raise Discard('logical operand of a comparison is the subject of C07')
        # a number (however the text is spelled: '12' is text) is less than every text - the one rule of C07 that deciding
        # '& binds tighter than comparisons' needs: 12=1&2 is 12="12", which is FALSE
        less = b.kind == 'text'          # a is the number
        return V('bool', {'<': less, '<=': less, '>': not less, '>=': not less, '=': False, '<>': True}[op])
    if a.kind == 'bool' or b.kind == 'bool':
        raise Discard('logical operand of a comparison is the subject of C07')
    if abs(a.v - b.v) <= (a.err + b.err) * 4 and (a.err or b.err):
        raise Discard('comparison unstable under rounding')
    return V('bool', CMP[op](a.v, b.v))


def concat(vals):
    out = ''
    for x in vals:
        if x.kind == 'text':
            out += x.v
        elif x.kind == 'int':
            out += str(int(x.v))
        else:
            raise Discard('& operand is neither text nor integer')
    return V('text', out)


def leafnum(value):
    if isinstance(value, bool):
        raise Discard('bool leaf')
    if isinstance(value, int):
        return V('int', Fr(value))
    return V('float', Fr(value))


def ev(t):
    k = t[0]
    if k == 'int':
        return V('int', Fr(t[1]))
    if k == 'dec':
        return V('float', Fr(float(t[1])))
    if k == 'pow':
        return V('int', Fr(t[1]) ** t[2])
    if k == 'pct':
        return V('float', Fr(float(Fr(t[1], 100))), Fr(float(Fr(t[1], 100))) * U)     # within an ulp of n/100 (C05 judges exactness)
    if k == 'str':
        return V('text', t[1])
    if k in ('var', 'cell'):
        return leafnum(t[2])
    if k == 'neg':
        x = _numeric(ev(t[1]))
        return V(x.kind, -x.v, x.err)
    if k == 'bin':
        return arith(t[1], ev(t[2]), ev(t[3]))
    if k == 'cmp':
        return compare(t[1], ev(t[2]), ev(t[3]))
    if k == 'amp':
        return concat([ev(x) for x in t[1]])
    if k == 'call':
        args = [_numeric(ev(x)) for x in t[2]]
        f = t[1]
        if f == 'ABS':
            x = args[0]
            return V(x.kind, abs(x.v), x.err)
        if f == 'SUM':
            acc = V('int', Fr(0))
            for x in args:
                acc = arith('+', acc, x)
            return acc
        if f == 'PRODUCT':
            acc = args[0]
            for x in args[1:]:
                acc = arith('*', acc, x)
            return acc
        if f in ('MAX', 'MIN'):
            pick = max if f == 'MAX' else min
            best = pick(args, key=lambda x: x.v)
            for x in args:
                if x is not best and abs(x.v - best.v) <= (x.err + best.err) * 4 and (x.err or best.err) and x.v != best.v:
                    raise Discard('MAX/MIN unstable')
            return V(best.kind, best.v, max(x.err for x in args))
    raise ValueError(k)


def well_conditioned(val, rel=Fr(1, 10 ** 12)):
    return val.kind not in ('int', 'float') or val.err <= rel * max(1, abs(val.v))


# ---------------------------------------------------------------- alternative readings (non-triviality measure)
# A rendering is a nested list of items: ('atom', tree) | ('op', sym) | ('neg',) | ('group', [items]).
STATEMENT_LEVELS = {'cmp': 1, '&': 2, '+': 3, '-': 3, '*': 4, '/': 4, 'neg': 5}
CMP_OPS = ('<', '>', '=', '<=', '>=', '<>')


def _lvl(sym, levels):
    return levels['cmp'] if sym in CMP_OPS else levels[sym]


def read(items, levels=STATEMENT_LEVELS, right_assoc=()):
    """Precedence-climbing parse of a rendering under a given table; returns a tree."""
    pos = [0]

    def peek():
        return items[pos[0]] if pos[0] < len(items) else None

    def primary():
        it = peek()
        pos[0] += 1
        if it[0] == 'atom':
            return it[1]
        if it[0] == 'group':
            return read(it[1], levels, right_assoc)
        if it[0] == 'neg':
            # operand: everything that binds tighter than unary minus under this table
            return ('neg', expr(levels['neg'] + 0.5))
        raise ValueError(it)

    def expr(minlvl):
        left = primary()
        while True:
            it = peek()
            if it is None or it[0] != 'op':
                return left
            l = _lvl(it[1], levels)
            if l < minlvl:
                return left
            pos[0] += 1
            right = expr(l if l in right_assoc else l + 0.5)
            sym = it[1]
            if sym in CMP_OPS:
                left = ('cmp', sym, left, right)
            elif sym == '&':
                left = ('amp', [left, right])
            else:
                left = ('bin', sym, left, right)

    t = expr(0)
    return t


ALTERNATIVES = [
    ('swap-muldiv-addsub', {'cmp': 1, '&': 2, '+': 4, '-': 4, '*': 3, '/': 3, 'neg': 5}, ()),
    ('swap-addsub-cmp', {'cmp': 3, '&': 2, '+': 1, '-': 1, '*': 4, '/': 4, 'neg': 5}, ()),
    ('swap-amp-cmp', {'cmp': 2, '&': 1, '+': 3, '-': 3, '*': 4, '/': 4, 'neg': 5}, ()),
    ('neg-loosest', {'cmp': 1, '&': 2, '+': 3, '-': 3, '*': 4, '/': 4, 'neg': 0}, ()),
    ('neg-below-muldiv', {'cmp': 1, '&': 2, '+': 3, '-': 3, '*': 4, '/': 4, 'neg': 3.5}, ()),
    ('right-assoc-addsub', STATEMENT_LEVELS, (3,)),
    ('right-assoc-muldiv', STATEMENT_LEVELS, (4,)),
    ('all-one-level', {'cmp': 1, '&': 1, '+': 1, '-': 1, '*': 1, '/': 1, 'neg': 5}, ()),
]


def same(a, b):
    if a.kind in ('int', 'float') and b.kind in ('int', 'float'):
        return abs(a.v - b.v) <= Fr(1, 10 ** 9) * max(1, abs(a.v))
    return a.kind == b.kind and a.v == b.v


def discriminating(items, ref):
    """Names of alternative readings under which this rendering would evaluate differently."""
    out = []
    for name, levels, ra in ALTERNATIVES:
        try:
            v = ev(read(items, levels, ra))
            if not same(v, ref):
                out.append(name)
        except Discard:
            out.append(name)
        except (ValueError, ZeroDivisionError, IndexError):
            out.append(name)
    return out
