"""Executable reference model of the event emitter described by C20.  No import of hotxlfp."""


class Entry(object):
    __slots__ = ('cb', 'ctx', 'once', 'delivered')

    def __init__(self, cb, ctx, once):
        self.cb, self.ctx, self.once, self.delivered = cb, ctx, once, False


class ModelEmitter(object):
    def __init__(self):
        self.t = {}
        self.ambiguous = False

    def on(self, name, cb, ctx=None):
        self.t.setdefault(name, []).append(Entry(cb, ctx if ctx is not None else {}, False))
        return self

    def once(self, name, cb, ctx=None):
        self.t.setdefault(name, []).append(Entry(cb, ctx if ctx is not None else {}, True))
        return self

    def off(self, name, cb=None):
        if cb is None:
            self.t[name] = []
        else:
            self.t[name] = [e for e in self.t.get(name, []) if not (e.cb == cb)]
        return self

    def emit(self, name, *args):
        for e in list(self.t.get(name, [])):      # changes made during delivery take effect from the next emit
            if e.once:
                if e.delivered:
                    # once-listener already served by a nested emit of the same name while still in this
                    # (outer) snapshot: the statement's clauses conflict here -> history not judged further
                    self.ambiguous = True
                    continue
                e.delivered = True
                self.t[name] = [x for x in self.t.get(name, []) if x is not e]
            e.cb(*args, **e.ctx)
        return self

    def table(self):
        return {n: [(e.cb, e.ctx, e.once) for e in lst] for n, lst in self.t.items() if lst}
