"""Reference model for cell labels (bijective base-26 columns, 1-based rows).  No import of hotxlfp."""
import re

WELL_FORMED = re.compile(r'(\$?)([A-Za-z]+)(\$?)([1-9][0-9]*)\Z')
LABEL_SHAPED = re.compile(r'(\$?)([A-Za-z]+)(\$?)([0-9]+)\Z')   # includes row 0 / leading zeros (unclaimed zone)


def col_index(letters):
    n = 0
    for c in letters.upper():
        n = n * 26 + (ord(c) - 64)
    return n - 1


def col_label(i):
    i += 1
    s = ''
    while i > 0:
        i, r = divmod(i - 1, 26)
        s = chr(65 + r) + s
    return s


def split(label):
    """(col_abs, col_index, row_abs, row_index) of a well-formed label, else None."""
    m = WELL_FORMED.match(label) if isinstance(label, str) else None
    if not m or not label.isascii():
        return None
    ca, col, ra, row = m.groups()
    return (ca == '$', col_index(col), ra == '$', int(row) - 1)


def compose(col_abs, col_idx, row_abs, row_idx):
    return ('$' if col_abs else '') + col_label(col_idx) + ('$' if row_abs else '') + str(row_idx + 1)
