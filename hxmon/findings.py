"""KNOWN_FINDINGS.txt: 'open: property=<id> key=<mechanism-key> <what fails>' and
'fixed: property=<id> <commit> <what failed>'.  Read-only at run time; fixed entries suppress nothing."""
import os
import re
from . import env

PATH = os.path.join(env.VERIF, 'KNOWN_FINDINGS.txt')
_OPEN = re.compile(r'^open:\s+property=(C\d+)\s+key=(\S+)\s+(.*)$')


def load_open(check_id):
    out = {}
    if not os.path.exists(PATH):
        return out
    with open(PATH) as f:
        for line in f:
            m = _OPEN.match(line.strip())
            if m and m.group(1) == check_id:
                out[m.group(2)] = m.group(3)
    return out
