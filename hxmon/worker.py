import sys
from .runner import worker_main

if __name__ == '__main__':
    sys.exit(worker_main(sys.argv[1:]))
