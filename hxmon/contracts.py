"""Runtime contracts installed on the *real* functions by rebinding (no edit of the repository).

They are active in every check and under every workload.  Conditions never raise: they record an
alarm in MON and return True, so a broken contract does not abort the evaluation it observes and
Parser.parse's own ``except Exception`` cannot swallow a verdict.  Every condition counts its
evaluations; a check whose deciding contract was evaluated zero times is inconclusive.
"""
import collections
import datetime
import functools

from . import env
from .models import cells as mcells
from .oracle import CODES9, canon, show, serial_of, date_of_serial, is_num, BASE_ORD
from fractions import Fraction as Fr


class Monitor(object):
    def __init__(self):
        self.evals = collections.Counter()
        self.alarms = collections.OrderedDict()   # (prop, key) -> [count, [witness...]]
        self.enabled = True

    def alarm(self, prop, key, **w):
        ent = self.alarms.setdefault((prop, key), [0, []])
        ent[0] += 1
        if len(ent[1]) < 3:
            ent[1].append({k: show(v, 300) for k, v in w.items()})


MON = Monitor()
_installed = False
ORIG = {}


# ----------------------------------------------------------------- C01: parse() record shape
def _xlerror():
    from hotxlfp.formulas import error
    return error.XLError


def record_problem(result):
    """None when `result` is a well-formed parse record, else a short mechanism key."""
    if type(result) is not dict:
        return 'not-a-dict'
    if set(result.keys()) != {'result', 'error'}:
        return 'wrong-keys'
    err = result['error']
    if err is not None:
        if type(err) is not str or err not in CODES9:
            return 'non-canonical-error-code'
        if result['result'] is not None:
            return 'result-not-empty-with-error'
    try:
        is_err = isinstance(result['result'], _xlerror())
    except Exception:
        # the oracle must survive what the code under test has to survive: a host value that refuses to tell its class
        is_err = issubclass(type(result['result']), _xlerror())
    if is_err:
        return 'result-is-error-object'
    return None


def parse_record_wellformed(result, expression):
    MON.evals['C01.parse_post'] += 1
    why = record_problem(result)
    if why is not None:
        MON.alarm('C01', 'C01/contract:' + why, formula=expression, record=result)
    return True


# ----------------------------------------------------------------- C20: emitter table invariant
def emitter_table_wellformed(self):
    MON.evals['C20.invariant'] += 1
    try:
        e = self._e
    except AttributeError:
        return True            # before Emitter.__init__ ran (subclass constructor in progress)
    from hotxlfp.tinyemitter import Listener
    if not isinstance(e, dict):
        MON.alarm('C20', 'C20/invariant:table-not-a-dict', table=type(e).__name__)
        return True
    for name, lst in list(e.items()):
        if not isinstance(lst, list):
            MON.alarm('C20', 'C20/invariant:entry-not-a-list', name=name, entry=lst)
            continue
        for li in lst:
            if not isinstance(li, Listener) or not callable(li.fn) or not isinstance(li.ctx, dict):
                MON.alarm('C20', 'C20/invariant:bad-listener', name=name, listener=li)
    return True


def returns_self(self, result):
    MON.evals['C20.returns_self'] += 1
    if result is not self:
        MON.alarm('C20', 'C20/contract:method-does-not-return-self', result=result)
    return True


# ----------------------------------------------------------------- C19: cell helper functions
def post_column_index_to_label(column, result):
    MON.evals['C19.column_index_to_label'] += 1
    if isinstance(column, int) and not isinstance(column, bool):
        exp = mcells.col_label(column) if column >= 0 else ''
        if result != exp:
            MON.alarm('C19', 'C19/contract:column_index_to_label', column=column, got=result, expected=exp)
    return True


def post_column_label_to_index(label, result):
    MON.evals['C19.column_label_to_index'] += 1
    if isinstance(label, str) and label and label.isascii() and label.isalpha():
        exp = mcells.col_index(label)
        if result != exp:
            MON.alarm('C19', 'C19/contract:column_label_to_index', label=label, got=result, expected=exp)
    return True


def post_row_label_to_index(label, result):
    MON.evals['C19.row_label_to_index'] += 1
    if isinstance(label, str) and label.isascii() and label.isdigit() and label[0] != '0':
        if result != int(label) - 1:
            MON.alarm('C19', 'C19/contract:row_label_to_index', label=label, got=result, expected=int(label) - 1)
    return True


def post_row_index_to_label(row, result):
    MON.evals['C19.row_index_to_label'] += 1
    if isinstance(row, int) and not isinstance(row, bool) and row >= 0:
        if result != str(row + 1):
            MON.alarm('C19', 'C19/contract:row_index_to_label', row=row, got=result, expected=str(row + 1))
    return True


def extract_problem(label, result):
    """None, or why `result` is not the decomposition the statement of C19 demands for `label`."""
    if not isinstance(label, str):
        return None
    parts = mcells.split(label)
    if parts is None:
        if mcells.LABEL_SHAPED.match(label) and label.isascii():
            return None          # row 0 / leading zeros: nothing is claimed
        if result != []:
            return 'non-label-decomposes'
        return None
    ca, ci, ra, ri = parts
    try:
        if len(result) != 2:
            return 'label-does-not-decompose'
        row, col = result
        if (row.index, bool(row.is_absolute), col.index, bool(col.is_absolute)) != (ri, ra, ci, ca):
            return 'wrong-coordinates'
    except Exception:
        return 'malformed-decomposition'
    return None


def post_extract_label(label, result):
    MON.evals['C19.extract_label'] += 1
    why = extract_problem(label, result)
    if why:
        MON.alarm('C19', 'C19/contract:extract_label:' + why, label=label, got=result)
    return True


def post_to_label(row, column, result):
    MON.evals['C19.to_label'] += 1
    try:
        ri, ci = row.index, column.index
        if isinstance(ri, int) and isinstance(ci, int) and ri >= 0 and ci >= 0:
            exp = mcells.compose(bool(column.is_absolute), ci, bool(row.is_absolute), ri)
            if result != exp:
                MON.alarm('C19', 'C19/contract:to_label', row=row, column=column, got=result, expected=exp)
    except AttributeError:
        pass
    return True


# ----------------------------------------------------------------- C13: serial conversions
MARCH1 = datetime.datetime(1900, 3, 1)
JAN1 = datetime.datetime(1900, 1, 1)
MAX_SERIAL = 2958465


def post_serialize_date(date, result):
    if type(date) is datetime.datetime and date.tzinfo is None:
        MON.evals['C13.serialize_date'] += 1
        if date >= MARCH1:
            exp = serial_of(date)
            if not is_num(result) or abs(Fr(result) - exp) > Fr(1, 10 ** 8):   # 1e-8 day < 1 ms
                MON.alarm('C13', 'C13/contract:serial-of-date', date=date, got=result, expected=float(exp))
        elif date >= JAN1:
            # January/February 1900: only invertibility and monotonicity are claimed (checked by C13 itself);
            # here: the serial must at least be a number below 61
            if not is_num(result) or not (0 <= result < 61):
                MON.alarm('C13', 'C13/contract:serial-of-early-1900-date', date=date, got=result)
    return True


def post_parse_date(date, result):
    if is_num(date) and 61 <= date < MAX_SERIAL + 1 and date == date:
        MON.evals['C13.parse_date'] += 1
        exp = date_of_serial(Fr(date))
        if type(result) is not datetime.datetime or abs((result - exp).total_seconds()) > 0.0011:
            MON.alarm('C13', 'C13/contract:date-of-serial', serial=date, got=result, expected=exp)
    return True


# ----------------------------------------------------------------- C02: registry functions do not mutate arguments
def _same_shape(fn, inner):
    """A function with fn's own parameter list (names, defaults, *args) that hands its arguments to inner(args): the monitor
    must not change what code looking at a registry entry sees (inspect.getfullargspec, __code__.co_argcount, __defaults__) -
    a change under test may well decide on that, and would then behave differently when watched than when not."""
    import inspect
    try:
        spec = inspect.getfullargspec(fn)
    except TypeError:
        return None
    if spec.kwonlyargs or spec.varkw or not all(a.isidentifier() for a in spec.args):
        return None
    params = list(spec.args) + (['*' + spec.varargs] if spec.varargs else [])
    tup = '(%s)' % ''.join(a + ', ' for a in spec.args) + (' + tuple(%s)' % spec.varargs if spec.varargs else '')
    ns = {'__inner': inner}
    exec('def %s(%s):\n    return __inner(%s)\n' % (fn.__name__ if fn.__name__.isidentifier() else 'guarded', ', '.join(params), tup), ns)
    g = [v for k, v in ns.items() if k not in ('__inner', '__builtins__')][0]
    g.__defaults__ = fn.__defaults__
    return g


def _guard_registry_fn(name, fn):
    def inner(args):
        MON.evals['C02.arg_snapshot'] += 1
        hold = [a for a in args if isinstance(a, (list, dict))]
        before = [canon(a) for a in hold] if hold else None
        try:
            return fn(*args)
        finally:
            if hold:
                after = [canon(a) for a in hold]
                if after != before:
                    MON.alarm('C02', 'C02/contract:function-mutates-argument:' + name, function=name,
                              before=before, after=after)
    guarded = _same_shape(fn, inner)
    if guarded is None:
        def guarded(*args):
            return inner(args)
    functools.update_wrapper(guarded, fn)
    guarded.__hxmon_wrapped__ = fn
    return guarded


def install(rec=None):
    """Idempotent.  Rebinds the real functions to contract-carrying versions."""
    global _installed
    hx = env.load()
    if _installed:
        return MON
    _installed = True
    import icontract
    from hotxlfp import parser as hparser, tinyemitter
    from hotxlfp.helper import cell as hcell
    from hotxlfp.formulas import utils as futils, operators as fops, dispatcher

    class Broken(BaseException):
        pass

    # C01
    ORIG['Parser.parse'] = hparser.Parser.parse
    hparser.Parser.parse = icontract.ensure(parse_record_wellformed, error=Broken)(hparser.Parser.parse)

    # C20 (Emitter and therefore hotxlfp.Parser, its subclass)
    for meth in ('on', 'once', 'off', 'emit'):
        ORIG['Emitter.' + meth] = getattr(tinyemitter.Emitter, meth)
        setattr(tinyemitter.Emitter, meth, icontract.ensure(returns_self, error=Broken)(getattr(tinyemitter.Emitter, meth)))
    icontract.invariant(emitter_table_wellformed, error=Broken)(tinyemitter.Emitter)

    # C19
    posts = {'column_index_to_label': post_column_index_to_label, 'column_label_to_index': post_column_label_to_index,
             'row_label_to_index': post_row_label_to_index, 'row_index_to_label': post_row_index_to_label,
             'extract_label': post_extract_label, 'to_label': post_to_label}
    for fname, cond in posts.items():
        orig = getattr(hcell, fname)
        ORIG['cell.' + fname] = orig
        wrapped = icontract.ensure(cond, error=Broken)(orig)
        setattr(hcell, fname, wrapped)
        if getattr(hparser, fname, None) is orig:      # names imported with ``from .helper.cell import ...``
            setattr(hparser, fname, wrapped)

    # C13
    for fname, cond in (('serialize_date', post_serialize_date), ('parse_date', post_parse_date)):
        orig = getattr(futils, fname)
        ORIG['utils.' + fname] = orig
        wrapped = icontract.ensure(cond, error=Broken)(orig)
        setattr(futils, fname, wrapped)
        if getattr(fops, fname, None) is orig:
            setattr(fops, fname, wrapped)
        n = 0
        for op, t1 in fops.IMPLICIT_DATA_TYPE_CONVERSIONS.items():
            for lt, t2 in t1.items():
                for rt, cell in t2.items():
                    for slot, f in list(cell.items()):
                        if f is orig:
                            cell[slot] = wrapped
                            n += 1
        MON.evals['C13.table_entries_patched'] += n

    # C02
    reg = dispatcher._registry_
    seen = {}
    for name in list(reg):
        fn = reg[name]
        if getattr(fn, '__hxmon_wrapped__', None) is None:
            if id(fn) not in seen:
                seen[id(fn)] = _guard_registry_fn(name, fn)
            reg[name] = seen[id(fn)]
    MON.evals['C02.registry_entries_wrapped'] += len(reg)
    return MON


def harvest(rec):
    """Move monitor observations into the shard recorder."""
    for k, v in MON.evals.items():
        rec.count('contract_evals.' + k, v)
    for (prop, key), (n, ws) in MON.alarms.items():
        if prop == rec.check_id:
            for w in ws:
                rec.violation(key, **w)
            rec.viol_counts[key] += n - len(ws)
        else:
            rec.foreign[key] += n
    MON.evals.clear()
    MON.alarms.clear()
