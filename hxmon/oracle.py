"""Comparison discipline shared by all checks (DESIGN 2.5)."""
import datetime
from fractions import Fraction as Fr

CODES9 = ('#ERROR!', '#DIV/0!', '#NAME?', '#N/A', '#NULL!', '#NUM!', '#REF!', '#VALUE!', '#GETTING_DATA')
CODES8 = ('#NULL!', '#DIV/0!', '#VALUE!', '#REF!', '#NAME?', '#NUM!', '#N/A', '#GETTING_DATA')  # ERROR.TYPE order

BAND = Fr(1, 10 ** 9)
BASE_ORD = datetime.date(1899, 12, 30).toordinal()


def canon(v, _depth=0, _path=()):
    """Type-strict, hashable, recursive canonical form of a Python value (a container met inside itself is named, not unrolled)."""
    if _depth > 150:
        return ('deep', type(v).__name__, id(v))
    if isinstance(v, (list, tuple, dict)):
        if id(v) in _path:
            return ('itself', len(_path) - _path.index(id(v)))
        _path = _path + (id(v),)
    if v is None:
        return ('blank',)
    if isinstance(v, bool):
        return ('bool', v)
    if isinstance(v, int):
        return ('int', v)
    if isinstance(v, float):
        return ('float', repr(v))
    if isinstance(v, complex):
        return ('complex', repr(v))
    if isinstance(v, str):
        return ('str', v)
    if isinstance(v, datetime.datetime):
        return ('dt', v.isoformat())
    if isinstance(v, (list, tuple)):
        return (type(v).__name__,) + tuple(canon(x, _depth + 1, _path) for x in v)
    if isinstance(v, BaseException):
        try:
            return ('exc', type(v).__name__, str(v))
        except BaseException:
            return ('exc', type(v).__name__, '?')
    if isinstance(v, dict):
        return ('dict',) + tuple(sorted((repr(k), canon(x, _depth + 1, _path)) for k, x in v.items()))
    return ('obj', type(v).__name__, id(v))


def outcome(rec):
    """Canonical outcome of a parse() record."""
    if not isinstance(rec, dict):
        return ('bad-record', repr(rec)[:80])
    if rec.get('error') is not None:
        return ('err', rec.get('error'))
    return ('ok', canon(rec.get('result')))


def stable_text(c):
    """text of a canonical form that never trips the int->str digit limit (huge ints are written in hex)"""
    if isinstance(c, tuple):
        return '(' + ','.join(stable_text(x) for x in c) + ')'
    if isinstance(c, bool) or c is None:
        return repr(c)
    if isinstance(c, int):
        return hex(c) if abs(c) >= 10 ** 18 else str(c)
    return repr(c)


def show(v, limit=200):
    try:
        s = repr(v)
    except BaseException as e:  # hostile objects
        s = '<unreprable %s>' % type(v).__name__
    return s if len(s) <= limit else s[:limit] + '...'


def is_num(x):
    return isinstance(x, (int, float)) and not isinstance(x, bool)


def frac(x):
    """Exact rational value of an int/float/Fraction/decimal string."""
    if isinstance(x, Fr):
        return x
    if isinstance(x, bool):
        return Fr(int(x))
    return Fr(x)


def finite(x):
    return is_num(x) and (isinstance(x, int) or (x == x and x not in (float('inf'), float('-inf'))))


def close(x, ref, band=BAND):
    """x (number from the implementation) within the band of the exact reference."""
    if not finite(x):
        return False
    ref = frac(ref)
    return abs(Fr(x) - ref) <= band * max(1, abs(ref))


def serial_of(dt):
    """Excel-1900 serial of a datetime (valid statement from 1900-03-01 on), exact rational."""
    day = dt.toordinal() - BASE_ORD
    us = (dt - datetime.datetime(dt.year, dt.month, dt.day)) // datetime.timedelta(microseconds=1)
    return Fr(day) + Fr(us, 86400 * 10 ** 6)


def date_of_serial(s):
    s = frac(s)
    days = s.numerator // s.denominator
    us = (s - days) * 86400 * 10 ** 6
    return datetime.datetime.fromordinal(BASE_ORD + days) + datetime.timedelta(microseconds=int(round(us)))


def dt_close(a, b, ms=1.0):
    return isinstance(a, datetime.datetime) and abs((a - b).total_seconds()) * 1000.0 <= ms + 1e-6


class Raised(object):
    """what a guarded library call returns when it raised: equal to nothing, so every oracle that follows fails on it"""

    def __init__(self, exc):
        self.exc = exc

    def __repr__(self):
        return 'RAISED(%s: %s)' % (type(self.exc).__name__, str(self.exc)[:80])

    def __eq__(self, other):
        return False

    def __ne__(self, other):
        return True

    __hash__ = object.__hash__


class Guarded(object):
    """proxy of a library module for checks that call its functions directly: an exception is a violation of the property whose
    function it is (recorded under <prefix>/<function>:raises:<type>), never a crash of the harness"""

    def __init__(self, mod, rec, prefix):
        self._mod, self._rec, self._prefix = mod, rec, prefix

    def __getattr__(self, name):
        fn = getattr(self._mod, name)
        if not callable(fn) or isinstance(fn, type):
            return fn

        def call(*a, **k):
            try:
                return fn(*a, **k)
            except Exception as e:
                self._rec.violation('%s/%s:raises:%s' % (self._prefix, name, type(e).__name__), arguments=a, error=repr(e)[:200])
                return Raised(e)
        return call
