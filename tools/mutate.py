#!/venv/bin/python
"""tools/mutate.py - systematic small mutations of hotxlfp, to find what the checks do not see.

  tools/mutate.py plan  [--files a.py,b.py] [--per-file N] [--seed S]        # list the mutants that would be tried
  tools/mutate.py run   --out mutation/<tag>.jsonl [--files ...] [--per-file N] [--seed S] [--tier quick]
  tools/mutate.py report mutation/<tag>.jsonl                              # survivors grouped by file/function

A mutant is one AST-located token change (comparison / arithmetic / boolean operator swapped, small integer constant +1,
`not` dropped, condition negated, expression statement deleted).  For each: scratch copy of /repo's working tree, the
repository's tests must still pass (otherwise the tests already see it - not our business), then the checks mapped to the
file run against the copy (HXMON_REPO).  Survivors are *candidates*: equivalent mutants and behaviour no property
speaks about are sorted out by reading (see DESIGN.md 5.12).  Nothing is ever written to /repo.
"""
import argparse
import ast
import json
import os
import random
import shutil
import subprocess
import sys
import time

HERE = os.path.dirname(os.path.dirname(os.path.abspath(__file__)))
sys.path.insert(0, os.path.join(HERE, 'tools'))
import drill  # noqa

REPO = '/repo'

# file -> checks whose property is anchored there (first ones are tried first)
FILE_CHECKS = {
    'hotxlfp/formulas/operators.py': ['C06', 'C07', 'C08', 'C13', 'C04'],
    'hotxlfp/formulas/utils.py': ['C11', 'C13', 'C06', 'C16', 'C17', 'C14', 'C02'],
    'hotxlfp/formulas/error.py': ['C01', 'C08', 'C02'],
    'hotxlfp/formulas/__init__.py': ['C09', 'C02', 'C03'],
    'hotxlfp/formulas/mathtrig.py': ['C16', 'C17', 'C11'],
    'hotxlfp/formulas/statistical.py': ['C11', 'C02'],
    'hotxlfp/formulas/text.py': ['C15', 'C02', 'C08'],
    'hotxlfp/formulas/logic.py': ['C12', 'C08'],
    'hotxlfp/formulas/information.py': ['C12', 'C08', 'C13'],
    'hotxlfp/formulas/dateandtime.py': ['C14', 'C13'],
    'hotxlfp/formulas/lookupandreference.py': ['C18', 'C02'],
    'hotxlfp/formulas/engineering.py': ['C17'],
    'hotxlfp/formulas/financial.py': ['C16'],
    'hotxlfp/parser.py': ['C01', 'C09', 'C10', 'C03', 'C02', 'C08'],
    'hotxlfp/grammarparser/parser.py': ['C05', 'C04', 'C08', 'C09', 'C10', 'C06', 'C01'],
    'hotxlfp/grammarparser/lexer.py': ['C05', 'C09', 'C10', 'C19', 'C08'],
    'hotxlfp/tinyemitter.py': ['C20', 'C10'],
    'hotxlfp/helper/cell.py': ['C19', 'C10'],
    'hotxlfp/helper/number.py': ['C05', 'C06', 'C16'],
}

CMP = {ast.Lt: ('<', '<='), ast.LtE: ('<=', '<'), ast.Gt: ('>', '>='), ast.GtE: ('>=', '>'), ast.Eq: ('==', '!='), ast.NotEq: ('!=', '=='),
       ast.Is: ('is', 'is not'), ast.IsNot: ('is not', 'is'), ast.In: ('in', 'not in'), ast.NotIn: ('not in', 'in')}
BIN = {ast.Add: ('+', '-'), ast.Sub: ('-', '+'), ast.Mult: ('*', '/'), ast.Div: ('/', '*'), ast.FloorDiv: ('//', '/'), ast.Mod: ('%', '//'),
       ast.Pow: ('**', '*'), ast.BitAnd: ('&', '|')}


class Src(object):
    def __init__(self, text):
        self.text = text
        self.lines = text.split('\n')
        self.starts = [0]
        for l in self.lines:
            self.starts.append(self.starts[-1] + len(l.encode()) + 1)

    def off(self, lineno, col):
        """ast columns are utf-8 byte offsets"""
        return self.starts[lineno - 1] + col


def mutants_of(path):
    raw = open(path, 'rb').read()
    text = raw.decode()
    tree = ast.parse(text)
    s = Src(text)
    out = []
    func_of = {}

    def mark(node, name):
        for ch in ast.iter_child_nodes(node):
            n = name
            if isinstance(ch, (ast.FunctionDef, ast.ClassDef)):
                n = (name + '.' if name else '') + ch.name
            func_of[id(ch)] = n
            mark(ch, n)
    mark(tree, '')

    def seg(a, b):
        return raw[a:b].decode()

    def add(node, kind, a, b, new):
        old = seg(a, b)
        if old == new:
            return
        out.append({'line': node.lineno, 'kind': kind, 'start': a, 'end': b, 'old': old, 'new': new, 'func': func_of.get(id(node), ''),
                    'src': s.lines[node.lineno - 1].strip()[:140]})

    def between(left, right, tok):
        a = s.off(left.end_lineno, left.end_col_offset)
        b = s.off(right.lineno, right.col_offset)
        mid = raw[a:b].decode()
        i = mid.find(tok)
        if i < 0:
            return None
        return a + len(mid[:i].encode()), a + len(mid[:i].encode()) + len(tok.encode())

    docstrings = set()
    for n in ast.walk(tree):
        if isinstance(n, (ast.FunctionDef, ast.ClassDef, ast.Module)) and n.body and isinstance(n.body[0], ast.Expr) and isinstance(getattr(n.body[0], 'value', None), ast.Constant):
            docstrings.add(id(n.body[0]))
    for n in ast.walk(tree):
        if isinstance(n, ast.Compare) and len(n.ops) == 1 and type(n.ops[0]) in CMP:
            tok, new = CMP[type(n.ops[0])]
            r = between(n.left, n.comparators[0], tok)
            if r:
                add(n, 'cmp', r[0], r[1], new)
        elif isinstance(n, ast.BinOp) and type(n.op) in BIN:
            tok, new = BIN[type(n.op)]
            if isinstance(n.op, ast.Mod) and isinstance(n.left, ast.Constant) and isinstance(n.left.value, str):
                continue        # string formatting
            r = between(n.left, n.right, tok)
            if r:
                add(n, 'bin', r[0], r[1], new)
        elif isinstance(n, ast.BoolOp):
            tok, new = ('and', 'or') if isinstance(n.op, ast.And) else ('or', 'and')
            r = between(n.values[0], n.values[1], tok)
            if r:
                add(n, 'bool', r[0], r[1], new)
        elif isinstance(n, ast.Constant) and type(n.value) is int and -1 <= n.value <= 400:
            a, b = s.off(n.lineno, n.col_offset), s.off(n.end_lineno, n.end_col_offset)
            add(n, 'const', a, b, str(n.value + 1))
            if n.value > 0:
                add(n, 'const', a, b, str(n.value - 1))
        elif isinstance(n, ast.Constant) and type(n.value) is bool:
            a, b = s.off(n.lineno, n.col_offset), s.off(n.end_lineno, n.end_col_offset)
            add(n, 'const', a, b, str(not n.value))
        elif isinstance(n, ast.UnaryOp) and isinstance(n.op, ast.Not):
            a, b = s.off(n.lineno, n.col_offset), s.off(n.operand.lineno, n.operand.col_offset)
            add(n, 'not', a, b, '')
        elif isinstance(n, (ast.If, ast.While, ast.IfExp)) and not isinstance(n.test, (ast.Compare, ast.BoolOp, ast.UnaryOp)):
            a, b = s.off(n.test.lineno, n.test.col_offset), s.off(n.test.end_lineno, n.test.end_col_offset)
            add(n.test, 'negate', a, b, 'not (%s)' % seg(a, b))
        elif isinstance(n, (ast.Expr, ast.AugAssign)) and id(n) not in docstrings and n.lineno == n.end_lineno:
            if isinstance(n, ast.Expr) and isinstance(n.value, ast.Constant):
                continue
            a, b = s.off(n.lineno, n.col_offset), s.off(n.end_lineno, n.end_col_offset)
            add(n, 'delete', a, b, 'pass')
    out.sort(key=lambda m: (m['line'], m['start'], m['new']))
    return raw, out


def never_reached():
    """lines no check's last run executed (intersection of the evidence files' never_reached lists): a mutant there cannot be seen"""
    import glob
    never = {}
    for p in glob.glob(os.path.join(HERE, 'evidence', 'C*.json')):
        cr = json.load(open(p))['coverage'].get('code_reached') or {}
        for f, v in cr.items():
            if f == '_total':
                continue
            s = set()
            for r in v['never_reached']:
                x, _, y = r.partition('-')
                s.update(range(int(x), int(y or x) + 1))
            never[f] = s if f not in never else never[f] & s
    return never


def choose(files, per_file, seed):
    plan = []
    for f in files:
        raw, ms = mutants_of(os.path.join(REPO, f))
        rnd = random.Random('%s:%s' % (seed, f))
        if per_file and len(ms) > per_file:
            ms = rnd.sample(ms, per_file)
            ms.sort(key=lambda m: (m['line'], m['start']))
        for m in ms:
            m['file'] = f
        plan.append((f, raw, ms))
    return plan


def cmd_run(a):
    files = a.files.split(',') if a.files else sorted(FILE_CHECKS)
    files = [f if f.startswith('hotxlfp/') else 'hotxlfp/' + f for f in files]
    run_plan(a, choose(files, a.per_file, a.seed))


def run_plan(a, plan):
    done = set()
    out_path = os.path.join(HERE, a.out) if not os.path.isabs(a.out) else a.out
    os.makedirs(os.path.dirname(out_path), exist_ok=True)
    if os.path.exists(out_path):
        for l in open(out_path):
            d = json.loads(l)
            done.add((d['file'], d['start'], d['new']))
    never = never_reached()
    tmp, dst = drill.scratch_copy()
    try:
        for f, raw, ms in plan:
            path = os.path.join(dst, f)
            for m in ms:
                if (f, m['start'], m['new']) in done:
                    continue
                t0 = time.time()
                mutated = raw[:m['start']] + m['new'].encode() + raw[m['end']:]
                res = dict(m)
                try:
                    compile(mutated, f, 'exec')
                    ok = True
                except SyntaxError:
                    ok = False
                if not ok:
                    res['status'] = 'invalid'
                elif m['line'] in never.get(f.replace('hotxlfp/', '', 1), ()):
                    res['status'] = 'unreached'
                else:
                    open(path, 'wb').write(mutated)
                    try:
                        e = dict(os.environ)
                        e.pop('HOTXLFP_VERIF', None)
                        e['PYTHONDONTWRITEBYTECODE'] = '1'
                        r = subprocess.run(['/venv/bin/python', '-m', 'pytest', '-q', '-x', '-p', 'no:cacheprovider', '--timeout=60'], cwd=dst, env=e,
                                           capture_output=True, text=True, timeout=300)
                        tests_ok = r.returncode == 0
                    except subprocess.TimeoutExpired:
                        tests_ok = False
                    if not tests_ok:
                        res['status'] = 'killed_by_tests'
                    else:
                        res['checks'] = {}
                        res['status'] = 'survived'
                        for cid in FILE_CHECKS[f][:a.max_checks]:
                            rc, keys, txt = drill.run_check(dst, cid, a.tier, str(a.check_seed))
                            res['checks'][cid] = rc
                            if rc == 1:
                                res['status'] = 'caught'
                                res['by'] = cid
                                res['key'] = keys[0][:200] if keys else ''
                                break
                            if rc not in (0, 1) and 'first_odd' not in res:
                                res['first_odd'] = '%s rc=%s %s' % (cid, rc, txt[-300:])
                    open(path, 'wb').write(raw)
                    for extra in ('hotxlfp/grammarparser/parser_FormulaParser_parsetab.py',):
                        pass
                res['seconds'] = round(time.time() - t0, 1)
                with open(out_path, 'a') as fo:
                    fo.write(json.dumps(res) + '\n')
                print('%-44s %4d %-7s %-12s -> %-10s %-16s %s' % (f, m['line'], m['kind'], (m['old'] + ' => ' + m['new'])[:12].replace('\n', ' '), res['status'], res.get('by', ''), m['src'][:70]), flush=True)
    finally:
        shutil.rmtree(tmp, ignore_errors=True)


def cmd_rerun(a):
    """re-test the survivors of an earlier run against the checks as they are now (mutants are re-located in the current source by
    file, function, kind, old/new text and source line, so earlier fixes to the file do not matter)"""
    import collections
    want = collections.Counter()
    for l in open(a.path):
        d = json.loads(l)
        if d['status'] == 'survived':
            want[(d['file'], d['func'], d['kind'], d['old'], d['new'], d['src'])] += 1
    files = sorted(set(k[0] for k in want))
    plan = []
    for f in files:
        raw, ms = mutants_of(os.path.join(REPO, f))
        keep = []
        for m in ms:
            k = (f, m['func'], m['kind'], m['old'], m['new'], m['src'])
            if want[k] > 0:
                want[k] -= 1
                m['file'] = f
                keep.append(m)
        plan.append((f, raw, keep))
    print('survivors to re-test: %d (not found again in the current source: %d)' % (sum(len(x[2]) for x in plan), sum(want.values())), flush=True)
    a.files, a.per_file = ','.join(files), 0
    run_plan(a, plan)


def cmd_plan(a):
    files = a.files.split(',') if a.files else sorted(FILE_CHECKS)
    files = [f if f.startswith('hotxlfp/') else 'hotxlfp/' + f for f in files]
    tot = 0
    for f, raw, ms in choose(files, a.per_file, a.seed):
        print('%-48s %d mutants' % (f, len(ms)))
        tot += len(ms)
    print('total', tot)


def cmd_report(a):
    rows = [json.loads(l) for l in open(a.path)]
    import collections
    c = collections.Counter(r['status'] for r in rows)
    print(dict(c))
    alive = [r for r in rows if r['status'] == 'survived']
    alive.sort(key=lambda r: (r['file'], r['line']))
    for r in alive:
        print('%-40s %4d %-28s %-7s %-22s | %s' % (r['file'].replace('hotxlfp/', ''), r['line'], r['func'][:28], r['kind'], (r['old'] + ' => ' + r['new'])[:22].replace('\n', ' '), r['src'][:90]))
    odd = [r for r in rows if r.get('first_odd')]
    for r in odd[:10]:
        print('ODD', r['file'], r['line'], r['first_odd'][:200])


def main():
    ap = argparse.ArgumentParser()
    sub = ap.add_subparsers(dest='cmd')
    for name in ('plan', 'run'):
        p = sub.add_parser(name)
        p.add_argument('--files', default='')
        p.add_argument('--per-file', type=int, default=0)
        p.add_argument('--seed', default='0')
        if name == 'run':
            p.add_argument('--out', required=True)
            p.add_argument('--tier', default='quick')
            p.add_argument('--check-seed', default='0')
            p.add_argument('--max-checks', type=int, default=4)
    p = sub.add_parser('report')
    p.add_argument('path')
    p = sub.add_parser('rerun')
    p.add_argument('path')
    p.add_argument('--out', required=True)
    p.add_argument('--tier', default='quick')
    p.add_argument('--check-seed', default='0')
    p.add_argument('--max-checks', type=int, default=4)
    a = ap.parse_args()
    {'plan': cmd_plan, 'run': cmd_run, 'report': cmd_report, 'rerun': cmd_rerun}[a.cmd](a)


if __name__ == '__main__':
    main()
