#!/venv/bin/python
"""tools/seedimport.py <src dir> <seed id> --checks Cxx [--missed-first "what was strengthened"]
Copies patch.diff/demo.py, re-validates with tools/seedcheck.py against the current /repo and writes seeded/<id>/meta.json."""
import argparse, json, os, shutil, subprocess, sys
HERE = os.path.dirname(os.path.dirname(os.path.abspath(__file__)))
ap = argparse.ArgumentParser()
ap.add_argument('src'); ap.add_argument('id'); ap.add_argument('--checks', required=True); ap.add_argument('--missed-first', default='')
a = ap.parse_args()
dst = os.path.join(HERE, 'seeded', a.id)
os.makedirs(dst, exist_ok=True)
for f in ('patch.diff', 'demo.py'):
    shutil.copy(os.path.join(a.src, f), os.path.join(dst, f))
src_meta = {}
try:
    src_meta = json.load(open(os.path.join(a.src, 'meta.json')))
except Exception:
    pass
r = subprocess.run(['/venv/bin/python', os.path.join(HERE, 'tools', 'seedcheck.py'), dst, '--checks', a.checks], capture_output=True, text=True)
res = json.loads(r.stdout)
meta = {
    'property': src_meta.get('property', a.checks.split(',')[0]),
    'summary': src_meta.get('summary', ''),
    'needs_to_manifest': src_meta.get('needs_to_manifest', ''),
    'files_changed': src_meta.get('files_changed', []),
    'origin': 'fresh sub-agent given only the property text and its own worktree of /repo',
    'validated': {'patch_applies_to_repo_head': res.get('patch_applies'), 'repository_tests_pass_with_change': res.get('tests_pass'),
                  'demo_exit_unmodified': res.get('demo_unmodified_exit'), 'demo_exit_with_change': res.get('demo_patched_exit'),
                  'how': 'tools/seedcheck.py seeded/%s --checks %s (scratch copy of /repo, patch -p1, pytest, demo.py, ./check <id> --tier quick with HXMON_REPO)' % (a.id, a.checks)},
    'checks': res.get('checks'),
    'caught': any(v['exit'] == 1 for v in res.get('checks', {}).values()),
    'missed_at_first': a.missed_first,
}
json.dump(meta, open(os.path.join(dst, 'meta.json'), 'w'), indent=1)
print(a.id, 'caught' if meta['caught'] else 'MISSED', {k: v['exit'] for k, v in meta['checks'].items()})
