#!/venv/bin/python
"""Validate a seeded change (patch.diff + demo.py) against the current /repo and run our checks against it.

  tools/seedcheck.py <dir with patch.diff, demo.py> --checks C05[,C09] [--tier quick] [--keep-as seeded/<id>]

Steps: scratch copy of /repo's working tree; demo on the unmodified copy must exit 0; apply the patch; the repository's
tests must pass; demo must exit non-zero; then each named check runs with HXMON_REPO pointing at the patched copy.
"""
import argparse
import json
import os
import shutil
import subprocess
import sys

HERE = os.path.dirname(os.path.dirname(os.path.abspath(__file__)))
sys.path.insert(0, os.path.join(HERE, 'tools'))
import drill  # noqa


def run_demo(dst, demo):
    e = dict(os.environ)
    e['PYTHONPATH'] = dst
    e['PYTHONDONTWRITEBYTECODE'] = '1'
    txt = open(demo).read()
    # demos were written against the agent's own worktree; point them at the copy under test
    import re
    txt = re.sub(r'/tmp/seed_wt_C\d+', dst, txt)
    tmp = os.path.join(os.path.dirname(dst), 'demo_run.py')
    open(tmp, 'w').write(txt)
    try:
        r = subprocess.run(['/venv/bin/python', tmp], cwd=os.path.dirname(dst), env=e, capture_output=True, text=True, timeout=600)
        return r.returncode, (r.stdout + r.stderr)[-600:]
    except subprocess.TimeoutExpired:
        return 124, 'demo timed out'


def main():
    ap = argparse.ArgumentParser()
    ap.add_argument('dir')
    ap.add_argument('--checks', required=True)
    ap.add_argument('--tier', default='quick')
    ap.add_argument('--seed', default='0')
    a = ap.parse_args()
    patch = os.path.join(a.dir, 'patch.diff')
    demo = os.path.join(a.dir, 'demo.py')
    tmp, dst = drill.scratch_copy()
    out = {'dir': a.dir}
    try:
        rc0, o0 = run_demo(dst, demo)
        out['demo_unmodified_exit'] = rc0
        r = subprocess.run(['patch', '-p1', '-s', '--no-backup-if-mismatch', '-i', os.path.abspath(patch)], cwd=dst, capture_output=True, text=True)
        out['patch_applies'] = r.returncode == 0
        if r.returncode:
            out['patch_error'] = (r.stdout + r.stderr)[-400:]
            print(json.dumps(out, indent=1))
            return 3
        ok, tail = drill.run_tests(dst)
        out['tests_pass'] = ok
        out['tests_tail'] = tail
        rc1, o1 = run_demo(dst, demo)
        out['demo_patched_exit'] = rc1
        out['demo_patched_output'] = o1[-300:]
        out['checks'] = {}
        ids = ['C%02d' % i for i in range(1, 21)] if a.checks == 'all' else a.checks.split(',')
        for cid in ids:
            rc, keys, txt = drill.run_check(dst, cid, a.tier, a.seed)
            out['checks'][cid] = {'exit': rc, 'keys': [k[:260] for k in keys[:4]]}
        print(json.dumps(out, indent=1))
        return 0
    finally:
        shutil.rmtree(tmp, ignore_errors=True)


if __name__ == '__main__':
    sys.exit(main())
