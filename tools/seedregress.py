#!/venv/bin/python
"""tools/seedregress.py [--jobs 3] [--resume]  - re-validate every seeded change against the checks as they are now.

For each seeded/<id>/: the patch must apply to /repo's working tree, the repository's tests must pass with it, its demo must fail
with it, and at least one of the checks recorded as catching it (meta.json) must still report a violation.  Writes
seeded/REGRESSION.json (rewritten after every seed, 'complete' false until the last one; --resume keeps the entries of an earlier
incomplete run that were caught) and prints one line per seed; exit 1 if any seed is no longer caught."""
import concurrent.futures, json, os, subprocess, sys
HERE = os.path.dirname(os.path.dirname(os.path.abspath(__file__)))


def one(sid):
    d = os.path.join(HERE, 'seeded', sid)
    try:
        meta = json.load(open(os.path.join(d, 'meta.json')))
    except Exception as e:
        return sid, {'error': 'meta.json: %r' % e}
    if meta.get('retired'):
        return sid, {'retired': meta['retired'], 'caught': True}
    ids = [k for k, v in (meta.get('checks') or {}).items() if v.get('exit') == 1] or list((meta.get('checks') or {}).keys())
    r = subprocess.run(['/venv/bin/python', os.path.join(HERE, 'tools', 'seedcheck.py'), d, '--checks', ','.join(ids)], capture_output=True, text=True)
    try:
        res = json.loads(r.stdout)
    except Exception:
        return sid, {'error': (r.stdout + r.stderr)[-300:]}
    return sid, {'patch_applies': res.get('patch_applies'), 'tests_pass': res.get('tests_pass'), 'demo_fails_with_change': res.get('demo_patched_exit') not in (0, None),
                 'checks': {k: v['exit'] for k, v in (res.get('checks') or {}).items()},
                 'caught': any(v['exit'] == 1 for v in (res.get('checks') or {}).values())}


def main():
    jobs = int(sys.argv[sys.argv.index('--jobs') + 1]) if '--jobs' in sys.argv else 3
    sids = sorted((x for x in os.listdir(os.path.join(HERE, 'seeded')) if os.path.isfile(os.path.join(HERE, 'seeded', x, 'meta.json'))),
                  key=lambda x: (x[:3] in ('C01', 'C02', 'C03'), x))      # the three slowest checks last
    path = os.path.join(HERE, 'seeded', 'REGRESSION.json')
    out = {}
    if '--resume' in sys.argv and os.path.exists(path):
        out = {k: v for k, v in json.load(open(path)).get('results', {}).items() if v.get('caught') and k in sids}
        sids = [x for x in sids if x not in out]

    def dump(complete):
        bad = [s for s, r in out.items() if not r.get('caught')]
        json.dump({'seeds': len(out), 'caught': len(out) - len(bad), 'not_caught': bad, 'complete': complete, 'results': out}, open(path + '.tmp', 'w'), indent=1, sort_keys=True)
        os.replace(path + '.tmp', path)
        return bad
    with concurrent.futures.ThreadPoolExecutor(jobs) as ex:
        for sid, res in ex.map(one, sids):
            out[sid] = res
            print('%-8s %s' % (sid, 'retired' if res.get('retired') else ('caught by ' + ','.join(k for k, v in res.get('checks', {}).items() if v == 1) if res.get('caught') else 'NOT CAUGHT %s' % res)), flush=True)
            dump(False)
    bad = dump(True)
    print('%d seeds, %d caught, not caught: %s' % (len(out), len(out) - len(bad), bad))
    return 1 if bad else 0


if __name__ == '__main__':
    sys.exit(main())
