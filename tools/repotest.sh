#!/bin/bash
# Runs the repository's own test-suite with the verification guard OFF (baseline_off_cmd).
cd /repo && env -u HOTXLFP_VERIF /venv/bin/python -m pytest -q -p no:cacheprovider --timeout=900 "$@" 2>&1 | tail -5
