#!/venv/bin/python
"""Deliberate breakages ("drills") applied to a scratch copy of /repo, to test the monitors themselves.

  tools/drill.py list
  tools/drill.py run [--only ID[,ID]] [--prop Cxx] [--tier quick] [--no-tests]
  tools/drill.py patch <file.diff> --checks C05,C09     (a seeded patch from /verif/seeded/<id>/patch.diff)

For every drill: copy /repo's working tree to a temp dir, apply the textual replacement (or patch), run the
repository's own tests there (they must still pass - otherwise the drill is not a realistic break), run the named
checks with HXMON_REPO pointing at the copy, report exit codes, remove the copy.
"""
import argparse
import json
import os
import shutil
import subprocess
import sys
import tempfile

HERE = os.path.dirname(os.path.dirname(os.path.abspath(__file__)))
DRILLS = os.path.join(HERE, 'hxmon', 'drills', 'drills.json')


def scratch_copy():
    d = tempfile.mkdtemp(prefix='hxdrill_')
    dst = os.path.join(d, 'repo')
    shutil.copytree('/repo', dst, ignore=shutil.ignore_patterns('.git', '__pycache__', '*.pyc', '.benchmarks', '*.egg-info'))
    return d, dst


def run_tests(dst):
    e = dict(os.environ)
    e.pop('HOTXLFP_VERIF', None)
    e['PYTHONDONTWRITEBYTECODE'] = '1'
    r = subprocess.run(['/venv/bin/python', '-m', 'pytest', '-q', '-x', '-p', 'no:cacheprovider', '--timeout=900'], cwd=dst, env=e,
                       capture_output=True, text=True)
    tail = (r.stdout.strip().splitlines() or [''])[-1]
    return r.returncode == 0, tail


def run_check(dst, cid, tier, seed='0'):
    e = dict(os.environ)
    e['HXMON_REPO'] = dst
    e['VERIF_SEED'] = seed
    e['HXMON_NO_EVIDENCE'] = '1'
    r = subprocess.run([os.path.join(HERE, 'check'), cid, '--tier', tier], cwd=HERE, env=e, capture_output=True, text=True)
    keys = [l.strip() for l in r.stdout.splitlines() if l.strip().startswith('key=')]
    rc = r.returncode
    if rc == 1 and 'VIOLATION property=' not in r.stdout:
        rc = 3      # crashed, not a verdict
    return rc, keys, r.stdout + r.stderr[-400:]


def apply_replacement(dst, d):
    for e in d.get('edits') or [d]:
        path = os.path.join(dst, e['file'])
        s = open(path).read()
        if s.count(e['old']) != 1:
            return 'old text occurs %d times in %s' % (s.count(e['old']), e['file'])
        open(path, 'w').write(s.replace(e['old'], e['new']))
    return None


def main():
    ap = argparse.ArgumentParser()
    ap.add_argument('cmd', choices=['list', 'run', 'patch'])
    ap.add_argument('patchfile', nargs='?')
    ap.add_argument('--only')
    ap.add_argument('--prop')
    ap.add_argument('--checks')
    ap.add_argument('--tier', default='quick')
    ap.add_argument('--no-tests', action='store_true')
    ap.add_argument('--verbose', action='store_true')
    a = ap.parse_args()
    drills = json.load(open(DRILLS)) if os.path.exists(DRILLS) else []
    if a.cmd == 'list':
        for d in drills:
            print('%-28s %-4s expect=%s  %s' % (d['id'], d['prop'], d.get('expect', 'caught'), d.get('note', '')))
        return 0
    if a.cmd == 'patch':
        tmp, dst = scratch_copy()
        try:
            r = subprocess.run(['patch', '-p1', '-s', '-i', os.path.abspath(a.patchfile)], cwd=dst, capture_output=True, text=True)
            if r.returncode:
                print('patch failed:', r.stdout, r.stderr)
                return 3
            ok, tail = (True, 'skipped') if a.no_tests else run_tests(dst)
            print('tests:', 'pass' if ok else 'FAIL', tail)
            bad = 0
            for cid in a.checks.split(','):
                rc, keys, out = run_check(dst, cid, a.tier)
                print('%s -> exit %d %s' % (cid, rc, keys[:4]))
                if a.verbose:
                    print(out)
            return 0
        finally:
            shutil.rmtree(tmp, ignore_errors=True)
    only = set(a.only.split(',')) if a.only else None
    rows, bad = [], 0
    for d in drills:
        if only and d['id'] not in only:
            continue
        if a.prop and d['prop'] != a.prop:
            continue
        tmp, dst = scratch_copy()
        try:
            err = apply_replacement(dst, d)
            if err:
                print('%-28s SKIP (%s)' % (d['id'], err))
                bad += 1
                continue
            ok, tail = (True, 'skipped') if a.no_tests else run_tests(dst)
            expect = d.get('expect', 'caught')
            res = []
            for cid in d.get('checks', [d['prop']]):
                rc, keys, out = run_check(dst, cid, a.tier)
                res.append((cid, rc, keys))
                if a.verbose:
                    print(out)
            caught = any(rc == 1 for _, rc, _ in res)
            good = (caught if expect == 'caught' else not any(rc != 0 for _, rc, _ in res))
            if not good or not ok:
                bad += 1
            print('%-28s tests=%s %s  %s  %s' % (d['id'], 'pass' if ok else 'FAIL(' + tail + ')', 'OK ' if good else 'MISSED' if expect == 'caught' else 'FALSE-ALARM',
                                               ' '.join('%s:%d' % (c, rc) for c, rc, _ in res), (res[0][2][:1] if res else '')))
        finally:
            shutil.rmtree(tmp, ignore_errors=True)
    return 1 if bad else 0


if __name__ == '__main__':
    sys.exit(main())
