#!/bin/bash
# tools/sweep.sh <tier> <seed...>   runs every implemented check (or those named in $HXMON_ONLY) for each seed (no evidence rewritten); prints verdict lines.
cd "$(dirname "$0")/.."
tier=${1:-quick}; shift
seeds=${@:-0 1 2 3 4}
[ -f .deps/.ok ] || ./setup.sh >/dev/null
for s in $seeds; do
  for f in hxmon/checks/c[0-9][0-9].py; do
    id=$(basename $f .py | tr a-z A-Z)
    if [ -n "$HXMON_ONLY" ] && ! echo " $HXMON_ONLY " | grep -q " $id "; then continue; fi
    out=$(VERIF_SEED=$s HXMON_NO_EVIDENCE=1 ./check $id --tier $tier 2>&1)
    rc=$?
    echo "seed=$s rc=$rc $(echo "$out" | tail -1)"
    if [ $rc -ne 0 ]; then echo "$out" | grep -E "VIOLATION|key=|INCONCLUSIVE" | cut -c1-600 | head -8; fi
  done
done
