#!/venv/bin/python
"""tools/seedround.py <round dir> <suffix>   - validate every delivery in <round dir>/<ID>/ against the checks of the properties its
meta.json names; import the ones that are valid AND caught into seeded/<ID>-<suffix>; print what needs attention."""
import json, os, re, subprocess, sys
HERE = os.path.dirname(os.path.dirname(os.path.abspath(__file__)))
rd, suffix = sys.argv[1], sys.argv[2]
for sub in sorted(os.listdir(rd)):
    d = os.path.join(rd, sub)
    if not os.path.exists(os.path.join(d, 'patch.diff')) or os.path.exists(os.path.join(HERE, 'seeded', '%s-%s' % (sub, suffix))):
        continue
    try:
        p = json.load(open(os.path.join(d, 'meta.json')))['property']
    except Exception:
        p = sub
    ids = sorted(set(re.findall(r'C\d\d', p if isinstance(p, str) else ' '.join(p)))) or [sub]
    r = subprocess.run(['/venv/bin/python', os.path.join(HERE, 'tools', 'seedcheck.py'), d, '--checks', ','.join(ids)], capture_output=True, text=True)
    try:
        res = json.loads(r.stdout)
    except Exception:
        print(sub, 'seedcheck failed', r.stdout[-300:], r.stderr[-300:])
        continue
    valid = res.get('patch_applies') and res.get('tests_pass') and res.get('demo_unmodified_exit') == 0 and res.get('demo_patched_exit') not in (0, None)
    caught = [c for c, v in res.get('checks', {}).items() if v['exit'] == 1]
    print('%-5s valid=%s caught_by=%s %s' % (sub, valid, caught, '' if caught else 'MISSED  props=%s' % ids))
    if not valid:
        print('      ', {k: v for k, v in res.items() if k not in ('checks', 'demo_patched_output')})
    if valid and caught:
        subprocess.run(['/venv/bin/python', os.path.join(HERE, 'tools', 'seedimport.py'), d, '%s-%s' % (sub, suffix), '--checks', ','.join(ids)], capture_output=True, text=True)
