#!/venv/bin/python
"""Regenerates /verif/MANIFEST.json from the check modules that exist (keeps it valid at all times)."""
import json
import os
import sys

HERE = os.path.dirname(os.path.dirname(os.path.abspath(__file__)))
sys.path.insert(0, HERE)
from hxmon import env  # noqa
env.setup_paths()
from hxmon import runner  # noqa

ALL = ['C%02d' % i for i in range(1, 21)]
PENDING_REASON = ('runtime monitoring applies to this property (DESIGN.md section 3) but its check is not built yet in this '
                  'round; not claimed until the check exists and is silent on the unchanged tree')


def main():
    checks, na = [], []
    for cid in ALL:
        path = os.path.join(HERE, 'hxmon', 'checks', cid.lower() + '.py')
        if not os.path.exists(path):
            na.append({'property_id': cid, 'reason': PENDING_REASON})
            continue
        c = runner.load_check(cid)
        checks.append({
            'property_id': cid,
            'quick_cmd': './check %s --tier quick' % cid,
            'thorough_cmd': './check %s --tier thorough' % cid,
            'evidence_file': 'evidence/%s.json' % cid,
            'replay_cmd_template': './check %s --replay {path}' % cid,
            'engine': 'hxmon',
            'level_claimed': {'category': c.LEVEL,
                              'text': getattr(c, 'LEVEL_TEXT', '') or ('Runtime monitoring decides the executions it produces: exploration-level assurance (seeded hostile workloads plus the exhaustive '
                                                                   'sub-spaces named in the evidence), with a deterministic oracle over what the monitors observed. Held on the executions listed '
                                                                   'in the evidence file: ' + c.RULE),
                              'design_ref': 'DESIGN.md 3.%s' % cid},
            'level_note': getattr(c, 'LEVEL_NOTE', '') or ('Trusted base: CPython 3.12, ply, dateutil, icontract, fractions/datetime, and the '
                                                          'reference models under hxmon/models. Scope guards: ' + '; '.join(c.ASSUMPTIONS) + '.'),
            'technique': c.TECHNIQUE,
        })
    man = {
        'version': 1,
        'setup_cmd': './setup.sh',
        'hooks': {
            'guard': 'HOTXLFP_VERIF',
            'enable': 'no source hook is needed: monitors are attached from outside (re-binding with icontract, sys.monitoring, '
                      'the library\'s own listeners); checks export HOTXLFP_VERIF=1 for uniformity',
            'baseline_off_cmd': 'cd /repo && env -u HOTXLFP_VERIF /venv/bin/python -m pytest -ra -q -p no:cacheprovider --timeout=900 --continue-on-collection-errors',
            'source_commits': [],
            'add_only': True,
        },
        'engines': [{'name': 'hxmon', 'path': 'hxmon', 'serves_properties': [c['property_id'] for c in checks],
                     'kind_free_text': 'runtime monitoring: seeded hostile workloads driving the real code under runtime contracts '
                                       '(icontract), sys.monitoring probes and boundary recorders, judged by independent reference models'}],
        'checks': checks,
        'not_applicable': na,
        'notes': 'All checks import hotxlfp from /repo\'s working tree (HXMON_REPO overrides for drills). Exit 0 held / 1 violation '
                 '/ 2 inconclusive (deciding monitor observed nothing, shard lost, watchdog). Known findings: KNOWN_FINDINGS.txt.',
    }
    if not na:
        del man['not_applicable']
    with open(os.path.join(HERE, 'MANIFEST.json'), 'w') as f:
        json.dump(man, f, indent=1)
        f.write('\n')
    import jsonschema
    jsonschema.validate(man, json.load(open(os.path.join(HERE, 'schemas', 'MANIFEST.schema.json'))))
    print('MANIFEST.json: %d checks, %d not_applicable' % (len(checks), len(na)))


if __name__ == '__main__':
    main()
