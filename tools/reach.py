#!/venv/bin/python
"""tools/reach.py [--per-check]   - lines of hotxlfp never executed by ANY check's last run (intersection of the
never_reached lists in evidence/*.json), i.e. where a change is invisible to all the monitors."""
import glob, json, os, sys
HERE = os.path.dirname(os.path.dirname(os.path.abspath(__file__)))
REPO = os.environ.get('HXMON_REPO', '/repo')


def expand(rs):
    out = set()
    for r in rs:
        a, _, b = r.partition('-')
        out.update(range(int(a), int(b or a) + 1))
    return out


never = {}
for p in sorted(glob.glob(os.path.join(HERE, 'evidence', 'C*.json'))):
    cr = json.load(open(p))['coverage'].get('code_reached')
    if not cr:
        print('no code_reached in', p)
        continue
    for f, v in cr.items():
        if f == '_total':
            continue
        s = expand(v['never_reached'])
        never[f] = s if f not in never else never[f] & s
tot = 0
for f in sorted(never):
    if not never[f]:
        continue
    tot += len(never[f])
    print('== %s: %d lines reached by no check' % (f, len(never[f])))
    src = open(os.path.join(REPO, 'hotxlfp', f)).read().split('\n')
    for l in sorted(never[f]):
        print('   %4d: %s' % (l, src[l - 1].rstrip()[:150]))
print('total', tot)
