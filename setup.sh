#!/bin/bash
# Offline setup: third-party helpers used by the monitors go into /verif/.deps (git-ignored).
set -e
cd "$(dirname "$0")"
if [ ! -f .deps/.ok ]; then
  rm -rf .deps
  PIP_NO_INDEX=1 /venv/bin/pip install --quiet --no-index --find-links /opt/veriftools/wheels \
      --target .deps icontract mpmath jsonschema >/dev/null 2>.deps.log || { cat .deps.log; exit 1; }
  touch .deps/.ok
fi
rm -f .deps.log
echo "setup ok"
